------------------------------- MODULE TV_ADSB ------------------------------
(* Verdicts for ADS-B decoders: identification (C10), velocity (C09),        *)
(* status / intent / quality indicators (C13).  Every verdict is total over  *)
(* all well-formed frames, so the same operators decide the guard cells of   *)
(* C14.                                                                       *)
EXTENDS ADSB, Res

Guard(e, inDomain, verdictIfIn, clause) ==
  IF inDomain THEN verdictIfIn
  ELSE IF IsErr(e.res) THEN "ok" ELSE clause

NumOrNone(r, v) == IF v = NA THEN IsNone(r) ELSE NumEq(r, v, 1)
IntOrNone(r, v) == IF v = NA THEN IsNone(r) ELSE IsInt(r, v)
BoolOrNone(r, has, b) == IF ~has THEN IsNone(r) ELSE IsBool(r, b)

(* angles: r = [t |-> "ang", n |-> round(deg*128), x |-> exact?, md |-> millidegrees, S, C |-> round(2^15 sin/cos)] *)
AngEq(r, num128) == r.t = "ang" /\ r.x = 1 /\ r.n = num128
AngOrNone(r, has, num128) == IF has THEN AngEq(r, num128) ELSE IsNone(r)
TrackOK(r, vwe, vsn) ==
  /\ r.t = "ang" /\ r.md >= 0 /\ r.md < 360000
  /\ IF vwe = 0 /\ vsn = 0 THEN r.md = 0
     ELSE /\ Abs(r.S * vsn - r.C * vwe) <= Abs(vwe) + Abs(vsn) + 1
          /\ r.S * vwe + r.C * vsn > 0

(* ------------------------------ C10 ------------------------------------ *)
IdentTC(f) == TypeCode(f) >= 1 /\ TypeCode(f) <= 4
V_callsign(e) == Guard(e, IdentTC(e.frame),
                       IF IsStr(e.res, CallsignText(e.frame)) THEN "ok" ELSE "callsign_characters", "callsign_tc_guard")
V_category(e) == Guard(e, IdentTC(e.frame),
                       IF IsInt(e.res, Category(e.frame)) THEN "ok" ELSE "category_value", "category_tc_guard")
\* BDS 2,0 in a Comm-B reply: same eight characters at MB bits 9..56, '#' kept
V_cs20(e) == IF IsStr(e.res, CallsignRaw(e.frame)) THEN "ok" ELSE "cs20_characters"

(* ------------------------------ C09 ------------------------------------ *)
SurfVel(e, src) ==
  LET f == e.frame  r == e.res  n == IF src THEN 6 ELSE 4 IN
  IF ~IsTup(r, n) THEN "surface_velocity_shape"
  ELSE IF ~(IF MovementEighths(SurfMov(f)) = NA THEN IsNone(r.v[1]) ELSE NumEq(r.v[1], MovementEighths(SurfMov(f)), 8))
       THEN "surface_speed_movement_table"
  ELSE IF ~AngOrNone(r.v[2], SurfTrkStatus(f) = 1, 360 * SurfTrk(f)) THEN "surface_track"
  ELSE IF ~NumEq(r.v[3], 0, 1) THEN "surface_vertical_rate_zero"
  ELSE IF ~IsLabel(r.v[4], "GS") THEN "surface_speed_type"
  ELSE IF src /\ ~(IsLabel(r.v[5], "TRUE_NORTH") /\ IsNone(r.v[6])) THEN "surface_sources"
  ELSE "ok"

AirVel(e, src) ==
  LET f == e.frame  r == e.res  n == IF src THEN 6 ELSE 4  st == Subtype19(f) IN
  IF st \in {1, 2} THEN
       IF VelV1(f) = 0 \/ VelV2(f) = 0 THEN (IF IsNone(r) THEN "ok" ELSE "velocity_none_when_component_unavailable")
       ELSE IF ~IsTup(r, n) THEN "velocity_shape"
       ELSE IF ~NumEq(r.v[1], GroundSpeed(f), 1) THEN "velocity_ground_speed"
       ELSE IF ~TrackOK(r.v[2], Vwe(f), Vsn(f)) THEN "velocity_track"
       ELSE IF ~IntOrNone(r.v[3], VertRate(f)) THEN "velocity_vertical_rate"
       ELSE IF ~IsLabel(r.v[4], "GS") THEN "velocity_speed_type"
       ELSE IF src /\ ~(IsLabel(r.v[5], "TRUE_NORTH") /\ IsLabel(r.v[6], IF VrSrc(f) = 0 THEN "GNSS" ELSE "BARO"))
            THEN "velocity_sources"
       ELSE "ok"
  ELSE IF st \in {3, 4} THEN
       IF IsNone(r) THEN "velocity_none_for_heading_airspeed_message"
       ELSE IF ~IsTup(r, n) THEN "velocity_shape"
       ELSE IF ~NumOrNone(r.v[1], Airspeed(f)) THEN "velocity_airspeed"
       ELSE IF ~AngOrNone(r.v[2], VelS1(f) = 1, 45 * VelV1(f)) THEN "velocity_heading"
       ELSE IF ~IntOrNone(r.v[3], VertRate(f)) THEN "velocity_vertical_rate"
       ELSE IF ~IsLabel(r.v[4], IF VelS2(f) = 0 THEN "IAS" ELSE "TAS") THEN "velocity_speed_type"
       ELSE IF src /\ ~(IsLabel(r.v[5], "MAGNETIC_NORTH") /\ IsLabel(r.v[6], IF VrSrc(f) = 0 THEN "GNSS" ELSE "BARO"))
            THEN "velocity_sources"
       ELSE "ok"
  ELSE \* reserved subtypes 0, 5, 6, 7: not constrained beyond shape
       IF IsNone(r) \/ IsTup(r, n) THEN "ok" ELSE "velocity_shape"

V_airborne_velocity(e) == Guard(e, TypeCode(e.frame) = 19, AirVel(e, e.src = 1), "airborne_velocity_tc_guard")
V_surface_velocity(e) == Guard(e, TypeCode(e.frame) \in 5..8, SurfVel(e, e.src = 1), "surface_velocity_tc_guard")
V_velocity(e) ==
  LET tc == TypeCode(e.frame) IN
  IF tc = 19 THEN AirVel(e, e.src = 1)
  ELSE IF tc \in 5..8 THEN SurfVel(e, e.src = 1)
  ELSE IF IsErr(e.res) THEN "ok" ELSE "velocity_tc_guard"

V_speed_heading(e) ==
  LET f == e.frame  r == e.res  tc == TypeCode(f)  st == Subtype19(f) IN
  IF tc \in 5..8 THEN
       IF ~IsTup(r, 2) THEN "speed_heading_shape"
       ELSE IF ~(IF MovementEighths(SurfMov(f)) = NA THEN IsNone(r.v[1]) ELSE NumEq(r.v[1], MovementEighths(SurfMov(f)), 8))
            THEN "surface_speed_movement_table"
       ELSE IF ~AngOrNone(r.v[2], SurfTrkStatus(f) = 1, 360 * SurfTrk(f)) THEN "surface_track"
       ELSE "ok"
  ELSE IF tc = 19 THEN
       IF st \in {1, 2} THEN
            IF VelV1(f) = 0 \/ VelV2(f) = 0 THEN (IF IsNone(r) THEN "ok" ELSE "velocity_none_when_component_unavailable")
            ELSE IF ~IsTup(r, 2) THEN "speed_heading_shape"
            ELSE IF ~NumEq(r.v[1], GroundSpeed(f), 1) THEN "velocity_ground_speed"
            ELSE IF ~TrackOK(r.v[2], Vwe(f), Vsn(f)) THEN "velocity_track"
            ELSE "ok"
       ELSE IF st \in {3, 4} THEN
            IF IsNone(r) THEN "velocity_none_for_heading_airspeed_message"
            ELSE IF ~IsTup(r, 2) THEN "speed_heading_shape"
            ELSE IF ~NumOrNone(r.v[1], Airspeed(f)) THEN "velocity_airspeed"
            ELSE IF ~AngOrNone(r.v[2], VelS1(f) = 1, 45 * VelV1(f)) THEN "velocity_heading"
            ELSE "ok"
       ELSE IF IsNone(r) \/ IsTup(r, 2) THEN "ok" ELSE "speed_heading_shape"
  ELSE IF IsErr(r) THEN "ok" ELSE "speed_heading_tc_guard"

\* 127 decodes to None in the library (named deviation AltDiff127IsNone): either accepted
V_altitude_diff(e) ==
  LET f == e.frame IN
  Guard(e, TypeCode(f) = 19,
        IF DiffVal(f) = 127 THEN (IF IsNone(e.res) \/ NumEq(e.res, AltDiff(f), 1) THEN "ok" ELSE "altitude_diff_value")
        ELSE IF NumOrNone(e.res, AltDiff(f)) THEN "ok" ELSE "altitude_diff_value",
        "altitude_diff_tc_guard")

(* ------------------------------ C13 ------------------------------------ *)
\* TC 28: emergency / priority status (subtype 1); subtype 2 (ACAS RA) is refused
V_emergency_state(e) ==
  LET f == e.frame IN
  Guard(e, TypeCode(f) = 28 /\ Subtype28(f) # 2,
        IF IsInt(e.res, EmergencyState(f)) THEN "ok" ELSE "emergency_state_value", "emergency_state_guard")

V_is_emergency(e) ==
  LET f == e.frame  s == EmergencyState(f) IN
  Guard(e, TypeCode(f) = 28 /\ Subtype28(f) # 2,
        IF Subtype28(f) = 1 /\ s \in 1..5 THEN (IF IsBool(e.res, TRUE) THEN "ok" ELSE "is_emergency_true_for_states_1_to_5")
        ELSE IF Subtype28(f) = 1 /\ s \in {6, 7} THEN (IF e.res.t = "b" THEN "ok" ELSE "is_emergency_shape")  \* reserved
        ELSE IF IsBool(e.res, FALSE) THEN "ok" ELSE "is_emergency_false_without_emergency",
        "is_emergency_guard")

\* TC 29.  st = ME 6-7.  Version-1 layout (st 0) and version-2 layout (st 1); st 2-3 reserved:
\* a decoder may either refuse them or decode them with the layout it implements.
T29(e, needs, body, clause) ==
  LET f == e.frame  st == Subtype29(f) IN
  IF TypeCode(f) # 29 THEN (IF IsErr(e.res) THEN "ok" ELSE clause)
  ELSE IF st = needs THEN body
  ELSE IF st = 1 - needs THEN (IF IsErr(e.res) THEN "ok" ELSE clause)
  ELSE IF IsOtherExc(e.res) THEN clause ELSE "ok"     \* reserved subtypes 2-3: refuse or decode, but no stray exception

V_selected_altitude(e) ==
  LET f == e.frame  r == e.res  a == MEField(f, 10, 20) IN
  T29(e, 1,
      IF ~IsTup(r, 2) THEN "selected_altitude_shape"
      ELSE IF a = 0 THEN (IF IsNone(r.v[1]) /\ IsLabel(r.v[2], "N/A") THEN "ok" ELSE "selected_altitude_no_data")
      ELSE IF ~NumEq(r.v[1], (a - 1) * 32, 1) THEN "selected_altitude_value"
      ELSE IF ~IsLabel(r.v[2], IF MEBit(f, 9) = 0 THEN "MCP/FCU" ELSE "FMS") THEN "selected_altitude_source"
      ELSE "ok", "selected_altitude_guard")

V_target_altitude(e) ==
  LET f == e.frame  r == e.res  av == MEField(f, 8, 9) IN
  T29(e, 0,
      IF ~IsTup(r, 3) THEN "target_altitude_shape"
      ELSE IF av = 0 THEN (IF IsNone(r.v[1]) /\ IsLabel(r.v[2], "N/A") THEN "ok" ELSE "target_altitude_no_data")
      ELSE IF ~NumEq(r.v[1], -1000 + 100 * MEField(f, 16, 25), 1) THEN "target_altitude_value"
      ELSE IF ~IsLabel(r.v[2], CASE av = 1 -> "MCP/FCU" [] av = 2 -> "Holding mode" [] OTHER -> "FMS/RNAV") THEN "target_altitude_source"
      ELSE IF ~IsLabel(r.v[3], IF MEBit(f, 10) = 0 THEN "FL" ELSE "MSL") THEN "target_altitude_reference"
      ELSE "ok", "target_altitude_guard")

ModeOrNone(r, v) == IF v = 0 THEN IsNone(r) ELSE IsInt(r, v)
V_vertical_mode(e) == T29(e, 0, IF ModeOrNone(e.res, MEField(e.frame, 14, 15)) THEN "ok" ELSE "vertical_mode_value", "vertical_mode_guard")
\* the library reads ME 26-27 (named deviation HorizontalModeAt26; DO-260A puts the indicator at 38-39)
V_horizontal_mode(e) == T29(e, 0, IF ModeOrNone(e.res, MEField(e.frame, 26, 27)) THEN "ok" ELSE "horizontal_mode_value", "horizontal_mode_guard")

\* selected heading: status ME 30, 9-bit value ME 31-39, LSB 180/256 degree: 0 .. 359.3
V_selected_heading(e) ==
  LET f == e.frame IN
  T29(e, 1, IF AngOrNone(e.res, MEBit(f, 30) = 1, 90 * MEField(f, 31, 39)) THEN "ok"
            ELSE IF MEBit(f, 30) = 0 THEN "selected_heading_no_data" ELSE "selected_heading_value", "selected_heading_guard")

V_target_angle(e) ==
  LET f == e.frame  r == e.res  av == MEField(f, 26, 27) IN
  T29(e, 0,
      IF ~IsTup(r, 3) THEN "target_angle_shape"
      ELSE IF av = 0 THEN (IF IsNone(r.v[1]) /\ IsLabel(r.v[3], "N/A") THEN "ok" ELSE "target_angle_no_data")
      ELSE IF ~NumEq(r.v[1], MEField(f, 28, 36), 1) THEN "target_angle_value"
      ELSE IF ~IsLabel(r.v[2], IF MEBit(f, 37) = 1 THEN "Heading" ELSE "Track") THEN "target_angle_type"
      ELSE IF ~IsLabel(r.v[3], CASE av = 1 -> "MCP/FCU" [] av = 2 -> "Autopilot mode" [] OTHER -> "FMS/RNAV") THEN "target_angle_source"
      ELSE "ok", "target_angle_guard")

\* 800 + (N-1)*0.8 mb = (4000 + 4(N-1))/5
V_baro_pressure_setting(e) ==
  LET f == e.frame  b == MEField(f, 21, 29) IN
  T29(e, 1, IF (IF b = 0 THEN IsNone(e.res) ELSE NumEq(e.res, 4000 + 4 * (b - 1), 5)) THEN "ok" ELSE "baro_setting_value",
      "baro_setting_guard")

ModeFlag(e, bit, clause) ==
  LET f == e.frame IN
  T29(e, 1, IF BoolOrNone(e.res, MEBit(f, 47) = 1, MEBit(f, bit) = 1) THEN "ok" ELSE clause, clause \o "_guard")
V_autopilot(e) == ModeFlag(e, 48, "autopilot")
V_vnav_mode(e) == ModeFlag(e, 49, "vnav_mode")
V_altitude_hold_mode(e) == ModeFlag(e, 50, "altitude_hold_mode")
V_approach_mode(e) == ModeFlag(e, 52, "approach_mode")
V_lnav_mode(e) == ModeFlag(e, 54, "lnav_mode")

\* st 0: ME 52 is "TCAS not operational"; st >= 1: ME 53 is "TCAS operational"
V_tcas_operational(e) ==
  LET f == e.frame IN
  Guard(e, TypeCode(f) = 29,
        IF Subtype29(f) = 0 THEN (IF IsBool(e.res, MEBit(f, 52) = 0) THEN "ok" ELSE "tcas_operational_v1")
        ELSE IF Subtype29(f) = 1 THEN (IF IsBool(e.res, MEBit(f, 53) = 1) THEN "ok" ELSE "tcas_operational_v2")
        ELSE IF IsOtherExc(e.res) THEN "tcas_operational_shape" ELSE "ok", "tcas_operational_guard")
V_tcas_ra(e) == T29(e, 0, IF IsBool(e.res, MEBit(e.frame, 53) = 1) THEN "ok" ELSE "tcas_ra_value", "tcas_ra_guard")
V_emergency_status(e) == T29(e, 0, IF IsInt(e.res, MEField(e.frame, 54, 56)) THEN "ok" ELSE "emergency_status_value", "emergency_status_guard")

(* ---- the library's uncertainty tables as a MODEL (transcribed from decoder/uncertainty.py at the pinned commit).   ---- *)
(* The property does not state the numeric radii, so a difference is reported as MODEL-DRIFT, never as a violation.   *)
NAv == -1
NUCpOfTC(tc) == CASE tc \in {5, 9, 20} -> 9 [] tc \in {6, 10, 21} -> 8 [] tc \in {7, 11} -> 7 [] tc \in {8, 12} -> 6 [] tc = 13 -> 5
                  [] tc = 14 -> 4 [] tc = 15 -> 3 [] tc = 16 -> 2 [] tc = 17 -> 1 [] OTHER -> 0
\* <<HPL x 2, RCu>>
NUCpRow(n) == CASE n = 9 -> <<15, 3>> [] n = 8 -> <<50, 10>> [] n = 7 -> <<370, 93>> [] n = 6 -> <<740, 185>> [] n = 5 -> <<1852, 463>>
                [] n = 4 -> <<3704, 926>> [] n = 3 -> <<7408, 1852>> [] n = 2 -> <<37040, 9260>> [] n = 1 -> <<74080, 18520>> [] OTHER -> <<NAv, NAv>>
QOrNone(r, num, den) == IF num = NAv THEN IsNone(r) ELSE NumEq(r, num, den)
ModelNucP(e) ==
  LET tc == TypeCode(e.frame)  n == NUCpOfTC(tc)  row == NUCpRow(n)  r == e.res.v IN
  IsInt(r[1], n) /\ QOrNone(r[2], row[1], 2) /\ QOrNone(r[3], row[2], 1)
  /\ QOrNone(r[4], IF tc = 20 THEN 4 ELSE IF tc = 21 THEN 15 ELSE NAv, 1)

\* NIC (version 1 / 2) by type code and supplement, -1 = no entry
NICv1OfTC(tc, s) == CASE tc \in {5, 9, 20} -> 11 [] tc \in {6, 10, 21} -> 10 [] tc = 7 -> 9 [] tc \in {8, 18, 22} -> 0 [] tc = 11 -> (IF s = 1 THEN 9 ELSE 8)
                      [] tc = 12 -> 7 [] tc = 13 -> 6 [] tc = 14 -> 5 [] tc = 15 -> 4 [] tc = 16 -> (IF s = 1 THEN 3 ELSE 2) [] tc = 17 -> 1 [] OTHER -> -1
\* <<Rc x 2, VPL x 2>> for (NIC, supplement), <<-1,-1>> where the table has no row
NICv1Row(n, s) == CASE n = 11 /\ s = 0 -> <<15, 22>> [] n = 10 /\ s = 0 -> <<50, 75>> [] n = 9 /\ s = 1 -> <<150, 224>> [] n = 8 /\ s = 0 -> <<370, NAv>>
                    [] n = 7 /\ s = 0 -> <<740, NAv>> [] n = 6 /\ s = 0 -> <<1852, NAv>> [] n = 6 /\ s = 1 -> <<2222, NAv>> [] n = 5 /\ s = 0 -> <<3704, NAv>>
                    [] n = 4 /\ s = 0 -> <<7404, NAv>> [] n = 3 /\ s = 1 -> <<14816, NAv>> [] n = 2 /\ s = 0 -> <<28016, NAv>> [] n = 1 /\ s = 0 -> <<74000, NAv>>
                    [] OTHER -> <<NAv, NAv>>
ModelNicV1(e) ==
  LET n == NICv1OfTC(TypeCode(e.frame), e.nics)  row == NICv1Row(n, e.nics)  r == e.res.v IN
  IsInt(r[1], n) /\ QOrNone(r[2], row[1], 2) /\ QOrNone(r[3], row[2], 2)

NICv2OfTC(tc, s) == CASE tc \in {5, 9, 20} -> 11 [] tc \in {6, 10, 21} -> 10 [] tc = 7 -> (IF s = 2 THEN 9 ELSE IF s = 0 THEN 8 ELSE -1)
                      [] tc = 8 -> (IF s = 3 THEN 7 ELSE IF s \in {1, 2} THEN 6 ELSE 0) [] tc = 11 -> (IF s = 3 THEN 9 ELSE IF s = 0 THEN 8 ELSE -1)
                      [] tc = 12 -> 7 [] tc = 13 -> 6 [] tc = 14 -> 5 [] tc = 15 -> 4 [] tc = 16 -> (IF s = 3 THEN 3 ELSE IF s = 0 THEN 2 ELSE -1)
                      [] tc = 17 -> 1 [] tc \in {18, 22} -> 0 [] OTHER -> -1
\* Rc x 2, -1 = no row (the function then returns (None, None)), -2 = row with Rc = NA
NICv2Rc(n, s) == CASE n = 11 /\ s = 0 -> 15 [] n = 10 /\ s = 0 -> 50 [] n = 9 /\ s \in {2, 3} -> 150 [] n = 8 /\ s = 0 -> 370 [] n = 7 /\ s \in {0, 3} -> 740
                   [] n = 6 /\ s = 0 -> 1852 [] n = 6 /\ s \in {1, 2} -> 1112 [] n = 6 /\ s = 3 -> 2222 [] n = 5 /\ s = 0 -> 3704 [] n = 4 /\ s = 0 -> 7404
                   [] n = 3 /\ s = 3 -> 14816 [] n = 2 /\ s = 0 -> 28016 [] n = 1 /\ s = 0 -> 74000 [] n = 0 /\ s = 0 -> -2 [] OTHER -> -1
ModelNicV2(e) ==
  LET tc == TypeCode(e.frame)  s == IF tc >= 20 THEN 0 ELSE 2 * e.nica + e.nicbc
      n == NICv2OfTC(tc, s)  rc == IF n = -1 THEN -1 ELSE NICv2Rc(n, s)  r == e.res.v IN
  IF rc = -1 THEN IsNone(r[1]) /\ IsNone(r[2])
  ELSE IsInt(r[1], n) /\ (IF rc = -2 THEN IsNone(r[2]) ELSE NumEq(r[2], rc, 2))

NACpRow(n) == CASE n = 11 -> <<3, 4>> [] n = 10 -> <<10, 15>> [] n = 9 -> <<30, 45>> [] n = 8 -> <<93, NAv>> [] n = 7 -> <<185, NAv>> [] n = 6 -> <<556, NAv>>
                [] n = 5 -> <<926, NAv>> [] n = 4 -> <<1852, NAv>> [] n = 3 -> <<3704, NAv>> [] n = 2 -> <<7408, NAv>> [] n = 1 -> <<18520, NAv>> [] OTHER -> <<NAv, NAv>>
ModelNacP(e) == LET r == e.res.v  row == NACpRow(r[1].v) IN QOrNone(r[2], row[1], 1) /\ QOrNone(r[3], row[2], 1)
\* x 100
VelRow(n) == CASE n = 1 -> <<1000, 1520>> [] n = 2 -> <<300, 450>> [] n = 3 -> <<100, 150>> [] n = 4 -> <<30, 46>> [] OTHER -> <<NAv, NAv>>
ModelVel(e) == LET r == e.res.v  row == VelRow(r[1].v) IN QOrNone(r[2], row[1], 100) /\ QOrNone(r[3], row[2], 100)
\* x 1e7
SilRow(n) == CASE n = 3 -> <<1, 2>> [] n = 2 -> <<100, 100>> [] n = 1 -> <<10000, 10000>> [] OTHER -> <<NAv, NAv>>
ModelSil(e) ==
  LET f == e.frame  n == IF TypeCode(f) = 29 THEN MEField(f, 45, 46) ELSE MEField(f, 51, 52)  row == SilRow(n)  r == e.res.v IN
  QOrNone(r[1], row[1], 10000000) /\ QOrNone(r[2], row[2], 10000000)
Drift(ok) == IF ok THEN "ok" ELSE "drift:lookup_value_differs_from_model"


\* TC 31 / quality indicators: the category (first element) is the encoded field; bounds are checked for
\* shape here and for monotonicity by V_monotone over the whole table
V_version(e) == Guard(e, TypeCode(e.frame) = 31, IF IsInt(e.res, Version31(e.frame)) THEN "ok" ELSE "version_value", "version_guard")
V_nic_s(e) == Guard(e, TypeCode(e.frame) = 31, IF IsInt(e.res, MEBit(e.frame, 44)) THEN "ok" ELSE "nic_s_value", "nic_s_guard")
V_nic_a_c(e) == Guard(e, TypeCode(e.frame) = 31,
                      IF IsTup(e.res, 2) /\ IsInt(e.res.v[1], MEBit(e.frame, 44)) /\ IsInt(e.res.v[2], MEBit(e.frame, 20))
                      THEN "ok" ELSE "nic_a_c_value", "nic_a_c_guard")
V_nic_b(e) == Guard(e, TypeCode(e.frame) \in 9..18, IF IsInt(e.res, MEBit(e.frame, 8)) THEN "ok" ELSE "nic_b_value", "nic_b_guard")

BoundOrNone(r) == r.t \in {"n", "i", "q"}
CatTuple(e, cat, n) == IsTup(e.res, n) /\ IsInt(e.res.v[1], cat) /\ \A k \in 2..n : BoundOrNone(e.res.v[k])

V_nac_p(e) ==
  LET f == e.frame  tc == TypeCode(f) IN
  Guard(e, tc \in {29, 31},
        IF CatTuple(e, IF tc = 29 THEN MEField(f, 40, 43) ELSE MEField(f, 45, 48), 3) THEN Drift(ModelNacP(e)) ELSE "nac_p_value", "nac_p_guard")
V_nac_v(e) == Guard(e, TypeCode(e.frame) = 19, IF CatTuple(e, NUCv(e.frame), 3) THEN Drift(ModelVel(e)) ELSE "nac_v_value", "nac_v_guard")
V_nuc_v(e) == Guard(e, TypeCode(e.frame) = 19, IF CatTuple(e, NUCv(e.frame), 3) THEN Drift(ModelVel(e)) ELSE "nuc_v_value", "nuc_v_guard")

V_sil(e) ==
  LET f == e.frame  tc == TypeCode(f)  r == e.res
      sup == IF tc = 29 THEN MEBit(f, 8) ELSE MEBit(f, 55) IN
  Guard(e, tc \in {29, 31},
        IF ~(IsTup(r, 3) /\ BoundOrNone(r.v[1]) /\ BoundOrNone(r.v[2])) THEN "sil_shape"
        ELSE IF ~IsLabel(r.v[3], IF e.version = 2 THEN (IF sup = 0 THEN "hour" ELSE "sample") ELSE "unknown") THEN "sil_supplement_base"
        ELSE Drift(ModelSil(e)), "sil_guard")

\* position-quality look-ups: total on TC 5..22 except 19 (a velocity message carries no position category)
PosTC(f) == TypeCode(f) \in (5..18) \cup (20..22)
LookupShape(e, n) == IsTup(e.res, n) /\ (e.res.v[1].t \in {"i", "n"}) /\ \A k \in 2..n : BoundOrNone(e.res.v[k])
V_nuc_p(e) == Guard(e, PosTC(e.frame), IF LookupShape(e, 4) THEN Drift(ModelNucP(e)) ELSE "nuc_p_total", "nuc_p_guard")
V_nic_v1(e) == Guard(e, PosTC(e.frame), IF LookupShape(e, 3) THEN Drift(ModelNicV1(e)) ELSE "nic_v1_total", "nic_v1_guard")
V_nic_v2(e) == Guard(e, PosTC(e.frame), IF LookupShape(e, 2) THEN Drift(ModelNicV2(e)) ELSE "nic_v2_total", "nic_v2_guard")

\* a whole look-up table observed through the API: e.rows = <<[c |-> category, n |-> bound*den, has |-> 0/1], ...>>
\* "a higher category never maps to a looser bound"
V_monotone(e) ==
  IF \A i \in 1..Len(e.rows), j \in 1..Len(e.rows) :
        (e.rows[i].c > e.rows[j].c /\ e.rows[i].has = 1 /\ e.rows[j].has = 1) => e.rows[i].n <= e.rows[j].n
  THEN "ok" ELSE "higher_category_looser_bound"
=============================================================================
