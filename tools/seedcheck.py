#!/venv/bin/python
"""Confirms a seeded change (sub-agent output under /tmp/seedout/<id>) on the CURRENT /repo HEAD in a scratch worktree and
files it under /verif/seeded/<id>/:  tools/seedcheck.py C07 [--checks C07,C15] [--patch path]
Steps: worktree of /repo HEAD -> demo passes (exit 0) -> apply patch -> 36 tests pass -> demo fails (exit 1) -> run the named
checks with VERIF_REPO=<worktree> and record which report VIOLATION -> copy patch/demo/meta -> remove the worktree."""
import argparse
import json
import os
import shutil
import subprocess
import sys

VERIF = os.path.dirname(os.path.dirname(os.path.abspath(__file__)))


def sh(cmd, cwd=None, env=None, timeout=3600):
    p = subprocess.run(cmd, cwd=cwd, env=env, shell=isinstance(cmd, str), stdout=subprocess.PIPE, stderr=subprocess.STDOUT,
                       text=True, timeout=timeout)
    return p.returncode, p.stdout


def main():
    ap = argparse.ArgumentParser()
    ap.add_argument("sid")
    ap.add_argument("--checks", default=None)
    ap.add_argument("--patch", default=None)
    ap.add_argument("--src", default=None, help="directory holding patch.diff/demo.py/meta.json (default /tmp/seedout/<id>)")
    ap.add_argument("--name", default=None, help="name of the directory under /verif/seeded (default: the id)")
    a = ap.parse_args()
    sid = a.sid
    src = a.src or os.path.join("/tmp/seedout", sid)
    patch = a.patch or os.path.join(src, "patch.diff")
    demo = os.path.join(src, "demo.py")
    meta = json.load(open(os.path.join(src, "meta.json"))) if os.path.exists(os.path.join(src, "meta.json")) else {}
    prop = (meta.get("property") or sid)[:3]
    checks = (a.checks or prop).split(",")
    wt = "/tmp/sv_" + (a.name or sid)
    sh(["git", "-C", "/repo", "worktree", "remove", "--force", wt])
    rc, out = sh(["git", "-C", "/repo", "worktree", "add", "-q", "--detach", wt, "HEAD"])
    assert rc == 0, out
    env = dict(os.environ, PYTHONPATH=os.path.join(wt, "src"), PYTHONHASHSEED="0")
    log = {"repo_head": sh(["git", "-C", "/repo", "rev-parse", "--short", "HEAD"])[1].strip()}
    try:
        # the generated C file is git-ignored: copy it so that lane B exists in the scratch tree as it does in /repo
        cfile = "/repo/src/pyModeS/c_common.c"
        if os.path.exists(cfile):
            shutil.copy(cfile, os.path.join(wt, "src/pyModeS/c_common.c"))
        rc0, o0 = sh(["/venv/bin/python", demo], cwd=wt, env=env)
        log["demo_without_change_exit"] = rc0
        rc, out = sh(["git", "apply", "--whitespace=nowarn", patch], cwd=wt)
        if rc != 0:
            rc, out = sh(["git", "apply", "-3", "--whitespace=nowarn", patch], cwd=wt)
        log["patch_applies"] = rc == 0
        if rc != 0:
            print("PATCH DOES NOT APPLY on current HEAD:\n" + out[-1500:])
            return 3
        rc, out = sh(["/venv/bin/python", "-m", "pytest", "-q", "-p", "no:cacheprovider", "tests"], cwd=wt, env=env)
        log["tests_with_change"] = out.strip().splitlines()[-1] if out.strip() else ""
        log["tests_pass_with_change"] = rc == 0
        rc1, o1 = sh(["/venv/bin/python", demo], cwd=wt, env=env)
        log["demo_with_change_exit"] = rc1
        log["demo_with_change_tail"] = o1[-600:]
        results = {}
        for c in checks:
            e2 = dict(os.environ, VERIF_REPO=wt)
            rc, out = sh(["/venv/bin/python", os.path.join(VERIF, "check"), c, "--tier", "quick"], cwd=VERIF, env=e2)
            lines = [l for l in out.splitlines() if l.startswith("VIOLATION") or l.startswith("  violation") or l.startswith("MODEL-DRIFT")
                     or l.startswith("MACHINERY")]
            results[c] = {"exit": rc, "lines": lines[:8]}
            # evidence files must describe /repo, not the scratch tree: restore below
        log["checks"] = results
        ok = (rc0 == 0 and log["tests_pass_with_change"] and rc1 != 0)
        caught = [c for c, r in results.items() if r["exit"] == 1]
        log["confirmed_seed"] = ok
        log["caught_by"] = caught
        print(json.dumps(log, indent=1))
        if ok:
            dst = os.path.join(VERIF, "seeded", a.name or sid)
            os.makedirs(dst, exist_ok=True)
            for srcf, name in ((patch, "patch.diff"), (demo, "demo.py")):
                if os.path.abspath(srcf) != os.path.abspath(os.path.join(dst, name)):      # selftest re-runs a filed seed in place
                    shutil.copy(srcf, os.path.join(dst, name))
            m = {"property": prop, "summary": meta.get("summary"), "needs": meta.get("needs"), "files": meta.get("files"),
                 "origin": "independent sub-agent given only the property text and a scratch worktree",
                 "confirmed_on_repo_head": log["repo_head"], "what_was_run": {
                     "tests_with_change": log["tests_with_change"], "demo_exit_without_change": rc0, "demo_exit_with_change": rc1,
                     "checks": results}, "caught_by": caught}
            json.dump(m, open(os.path.join(dst, "meta.json"), "w"), indent=1)
        return 0 if ok else 4
    finally:
        sh(["git", "-C", "/repo", "worktree", "remove", "--force", wt])
        shutil.rmtree(wt, ignore_errors=True)


if __name__ == "__main__":
    sys.exit(main())
