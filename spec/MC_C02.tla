------------------------------- MODULE MC_C02 -------------------------------
(* Role A for C02: a reply built the way a transponder builds it (address in *)
(* AA, or address XOR parity in AP) gives its address back through Icao();   *)
(* every other format gives none.  Each state carries the frame, so the dump *)
(* of this model is the vector set replayed into the implementation.         *)
EXTENDS Frame, TLC

CONSTANT Seeded        \* extra addresses (from VERIF_SEED)
VARIABLE c

Addrs == {0, 16777215} \cup {Pow2(k) : k \in 0..23} \cup Seeded
Pats == 0..3
Fill(p, k) == CASE p = 0 -> 0 [] p = 1 -> 255 [] p = 2 -> 170 [] OTHER -> (37 * k + 11) % 256

Build(df, a, n, p, cf) ==
  LET data == [k \in 1..(n - 3) |->
                 IF k = 1 THEN df * 8 + cf
                 ELSE IF df \in AAFormats /\ k = 2 THEN a \div 65536
                 ELSE IF df \in AAFormats /\ k = 3 THEN (a \div 256) % 256
                 ELSE IF df \in AAFormats /\ k = 4 THEN a % 256
                 ELSE Fill(p, k)]
  IN  IF df \in AAFormats THEN BuildPI(data, 0)
      ELSE BuildAP(data, a)     \* for non-address formats the overlay is simply arbitrary tail content

Init == c = [df |-> -1]
Next == /\ c.df = -1
        \* the three bits after the DF (CA / CF / FS ...) take every value for the all-zero pattern, a pattern-dependent one otherwise
        /\ \E df \in 0..31, a \in Addrs, n \in {7, 14}, p \in Pats, cf \in 0..7 :
             /\ (p = 0 \/ cf = Fill(p, 1) % 8)
             /\ c' = [df |-> df, a |-> a, n |-> n, p |-> p, cf |-> cf, frame |-> Build(df, a, n, p, cf)]

RoundTrip ==
  c.df >= 0 =>
    LET d == Min(c.df, 24) IN
    IF d \in AAFormats \cup APFormats THEN IcaoInt(c.frame) = c.a ELSE IcaoInt(c.frame) = -1
=============================================================================
