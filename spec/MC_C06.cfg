INIT Init
NEXT Next
INVARIANT Table
INVARIANT Grid
INVARIANT Lattice
CHECK_DEADLOCK FALSE
