SPECIFICATION Spec
CONSTANTS
  H = 10
  Ids = {1, 2, 3, 4, 5, 6, 7, 8, 9, 10, 11, 12, 13, 14}
  FixedTable = TRUE
  Probe = 1
  Tables = {}
INVARIANT TypeOK
INVARIANT ShownSlice
PROPERTY LockHighlight
INVARIANT OffsetInTable
CHECK_DEADLOCK FALSE
