"""Lane B: the Cython-GENERATED C file that sits (git-ignored) next to c_common.pyx, compiled with gcc into a scratch
directory and loaded under the name pyModeS.c_common.  Cython itself is not installed, so the .c cannot be regenerated;
a per-function FRESHNESS GATE compares every source line Cython embedded in the .c (the `# <<<<` markers) with the same
line of the working-tree .pyx: functions whose embedded lines differ are stale and are excluded from this lane."""
import importlib.util
import os
import re
import subprocess
import sys
import sysconfig

from .lanes import SRC, LaneUnavailable

PYX = os.path.join(SRC, "pyModeS", "c_common.pyx")
CFILE = os.path.join(SRC, "pyModeS", "c_common.c")
_MARK = re.compile(r'/\* "pyModeS/c_common\.pyx":(\d+)\n((?: \*.*\n)+?)\*/')
_DEF = re.compile(r"^(?:cpdef|cdef|def)\s+(?:inline\s+)?(?:[\w\[\]: ]+?\s+)?(\w+)\s*\(")


def function_spans(pyx_lines):
    """[(name, first_line, last_line)] 1-based, top-level functions of the .pyx (decorators belong to the function)."""
    starts = []
    for n, line in enumerate(pyx_lines, 1):
        m = _DEF.match(line)
        if m:
            starts.append((m.group(1), n))
    spans = []
    for k, (name, n) in enumerate(starts):
        end = (starts[k + 1][1] - 1) if k + 1 < len(starts) else len(pyx_lines)
        spans.append((name, n, end))
    return spans


def freshness():
    """returns (fresh: set of function names, stale: dict name -> [line numbers])"""
    if not os.path.exists(CFILE):
        raise LaneUnavailable("no generated c_common.c next to the .pyx")
    pyx = open(PYX).read().split("\n")
    ctext = open(CFILE).read()
    spans = function_spans(pyx)

    def owner(n):
        for name, a, b in spans:
            if a <= n <= b:
                return name
        return None

    stale = {}
    seen = set()
    for m in _MARK.finditer(ctext):
        n = int(m.group(1))
        marked = [l for l in m.group(2).split("\n") if l.rstrip().endswith("# <<<<<<<<<<<<<<")]
        if not marked:
            continue
        src = marked[0][3:].rstrip()
        src = src[: src.rindex("#")].rstrip()
        cur = pyx[n - 1].rstrip() if n - 1 < len(pyx) else None
        o = owner(n)
        seen.add(o)
        if cur is None or cur != src:
            stale.setdefault(o or "<module>", []).append(n)
    # a function present in the .pyx but with no marker at all in the .c was added after generation
    names = {name for name, _, _ in spans}
    for name in names - seen:
        stale.setdefault(name, []).append(0)
    fresh = names - set(stale)
    return fresh, stale


def load_compiled(builddir):
    if not builddir:
        raise LaneUnavailable("no build directory given")
    so = os.path.join(builddir, "c_common" + (sysconfig.get_config_var("EXT_SUFFIX") or ".so"))
    if not os.path.exists(so):
        inc = sysconfig.get_paths()["include"]
        cmd = ["gcc", "-O1", "-shared", "-fPIC", "-w", "-I", inc, CFILE, "-o", so, "-lm"]
        p = subprocess.run(cmd, stdout=subprocess.PIPE, stderr=subprocess.STDOUT, text=True)
        if p.returncode != 0:
            raise LaneUnavailable("gcc failed: " + p.stdout[-800:])
    spec = importlib.util.spec_from_file_location("pyModeS.c_common", so)
    mod = importlib.util.module_from_spec(spec)
    sys.modules["pyModeS.c_common"] = mod
    spec.loader.exec_module(mod)
    return mod
