"""C15 - the Cython common module is observationally equivalent to the Python one.

Cython is not installed in this sandbox, so c_common.pyx cannot be recompiled.  Three interchangeable 'common' lanes:
  P  py_common (working tree);
  T  the working-tree c_common.pyx executed through a transliterator with C coercion semantics (vlib/pyx_lane.py);
  B  the Cython-generated c_common.c lying next to the .pyx, compiled with gcc, used per function only where a
     freshness gate shows the embedded source lines (of the function and of every c_common function it calls) equal the
     working-tree .pyx.
(1) function level: every shared function over its domain (exhaustive 13-bit codes, Gray codes, DF/TC cells; dense floats;
    random frames) in each lane; every event is validated by TLC against the SAME spec operators (sentinels -1 / -999999
    stand for None only in lanes T/B); lanes T and B must also agree with each other wherever B is fresh (fidelity of T).
(2) library level: the quick vector sets of C07-C10, C12, C13 (and, thorough, the CPR sets) replayed with the .pyx lane
    injected as pyModeS.common; TLC judges them with the same verdicts as under py_common.
A: the spec-level models of the properties whose vectors are reused (MC_C07, MC_ADSB); the equivalence itself is a
   two-implementation conformance question, decided by TLC on both lanes' traces.
"""
import math
import os
import re
import shutil
import tempfile

from .. import gen, enc, tlc, clane, lanes
from . import c01, c06, c07, c08, c09, c10, c12, c13

SHARED = ["hex2bin", "bin2int", "hex2int", "bin2hex", "df", "crc", "floor", "icao", "is_icao_assigned", "typecode", "cprNL",
          "idcode", "squawk", "altcode", "altitude", "gray2alt", "data", "allzeros", "wrongstatus"]


def call_closure():
    """fresh functions of the generated C whose callees are fresh too"""
    fresh, stale = clane.freshness()
    pyx = open(clane.PYX).read().split("\n")
    spans = clane.function_spans(pyx)
    names = [s[0] for s in spans]
    calls = {}
    for name, a, b in spans:
        body = "\n".join(pyx[a:b])
        calls[name] = {n for n in names if n != name and re.search(r"\b%s\s*\(" % re.escape(n), body)}
    ok = set(fresh)
    changed = True
    while changed:
        changed = False
        for n in list(ok):
            if not calls.get(n, set()) <= ok:
                ok.discard(n)
                changed = True
    return ok, stale


def fn_of(e):
    return e["fn"].split(".", 1)[1] if e["fn"].startswith("common.") else None


def function_vectors(ctx):
    rng = ctx.rng
    V = []
    # crc / icao / df / typecode / hex2bin / data / allzeros on frames
    frames = []
    for n in (14, 7):
        for i in range(1, 8 * n + 1, ctx.pick(3, 1)):
            frames.append(c01.unit(n, i))
    for _ in range(ctx.pick(1500, 60000)):
        frames.append(gen.rand_frame(rng))
    for df in range(32):
        for _ in range(3):
            frames.append(gen.rand_frame_df(rng, df))
    for tc in range(32):
        frames.append(gen.set_bits(gen.rand_frame_df(rng, 17), 33, 37, tc))
    for ts, msg, ic in gen.sample_frames("adsb")[:300] + gen.sample_frames("df20")[:300]:
        frames.append(list(bytes.fromhex(msg)))
    for k, f in enumerate(frames):
        cs = rng.choice([0, 1, 2 + k])
        text = enc.text(bytes(f).hex().upper() if cs == 0 else bytes(f).hex() if cs == 1 else
                        "".join(c.upper() if rng.random() < 0.5 else c for c in bytes(f).hex()))
        V.append({"fn": "common.crc", "frame": f, "enc": k % 2, "cs": cs})
        V.append({"fn": "common.icao", "text": text, "rel": 0, "frame": f})
        V.append({"fn": "common.df", "frame": f, "cs": cs})
        V.append({"fn": "common.typecode", "frame": f, "cs": cs})
        V.append({"fn": "common.hex2bin", "frame": f, "cs": cs})
        V.append({"fn": "common.bin2hex_frame", "frame": f if k % 7 else [0] * (k % 5) + f[k % 5:]})
        V.append({"fn": "common.data", "text": text, "frame": f})
        if len(f) == 14:
            V.append({"fn": "common.allzeros", "frame": f if k % 5 else f[:4] + [0] * 7 + f[11:], "cs": cs})
            sb = rng.randrange(1, 50)
            msb = sb + 1
            lsb = min(56, msb + rng.randrange(0, 12))
            V.append({"fn": "common.wrongstatus", "frame": f, "sb": sb, "msb": msb, "lsb": lsb})
            if k % 7 == 0:
                # wide fields with only their top bits set, status bit clear (C integer widths: a field wider than an int)
                sb2 = rng.randrange(1, 8)
                top = rng.randrange(sb2 + 1, sb2 + 12)
                g = f[:4] + [0] * 7 + f[11:]
                g = gen.set_bits(g, 32 + top, 32 + top, 1)
                V.append({"fn": "common.wrongstatus", "frame": g, "sb": sb2, "msb": sb2 + 1, "lsb": rng.choice([56, 56, 50, 48, 45])})
            V.append({"fn": "common.idcode", "frame": f, "code": -1})
            V.append({"fn": "common.altcode", "frame": f, "code": -1})
        else:
            V.append({"fn": "common.idcode", "frame": f, "code": -1})
            V.append({"fn": "common.altcode", "frame": f, "code": -1})
    # exhaustive 13-bit codes, 11-bit Gray codes
    for code in range(8192):
        V.append({"fn": "common.altitude", "code": code})
        V.append({"fn": "common.squawk", "code": code})
        if code % ctx.pick(4, 1) == 0:
            for df, fn in ((4, "common.altcode"), (20, "common.altcode"), (5, "common.idcode"), (21, "common.idcode")):
                V.append({"fn": fn, "frame": gen.set_bits(gen.rand_frame_df(rng, df), 20, 32, code), "code": code})
    for code in range(2048):
        V.append({"fn": "common.gray2alt", "code": code})
    # small conversions
    for _ in range(ctx.pick(1500, 40000)):
        n = rng.randrange(1, 31)
        bits = [rng.randrange(2) for _ in range(n)]
        V.append({"fn": "common.bin2int", "bits": bits})
        V.append({"fn": "common.bin2hex", "bits": bits})
        h = "".join(rng.choice("0123456789abcdefABCDEF") for _ in range(rng.choice([2, 4, 6])))
        V.append({"fn": "common.hex2int", "text": enc.text(h)})
        num = rng.randrange(-4000000, 4000000)
        den = rng.choice([1, 2, 3, 7, 10, 1000])
        V.append({"fn": "common.floor", "num": num, "den": den})
    edges = sorted({b + d for b in (0x200000, 0x27FFFF, 0x280000, 0x28FFFF, 0x500000, 0x5FFFFF, 0x600000, 0x67FFFF, 0x680000, 0x6F0000,
                                     0x900000, 0x9FFFFF, 0xB00000, 0xBFFFFF, 0xD00000, 0xDFFFFF, 0xF00000, 0xFFFFFF)
                    for d in (-1, 0, 1) if 0 <= b + d < (1 << 24)})
    for a in [0] + edges + [rng.randrange(1 << 24) for _ in range(ctx.pick(600, 20000))]:
        V.append({"fn": "common.is_icao_assigned", "addr": a, "cs": rng.randrange(2)})
    # cprNL: the C06 latitude set
    V += c06.vectors(ctx)
    return V


def library_vectors(ctx):
    V = []
    for mod, frac in ((c07, 3), (c08, 4), (c09, 2), (c10, 2), (c13, 3), (c12, 2)):
        vs = mod.vectors(ctx)
        V += vs if not ctx.quick else vs[ctx.seed % frac::frac]
    return [v for v in V if v["fn"] not in ("common.fs", "common.dr", "common.um", "crc_legacy", "monotone")]


def strip(e):
    v = dict(e)
    for k in ("res", "id", "lane"):
        v.pop(k, None)
    return v


def run(ctx):
    ctx.rule = ("function level: all 8192 altitude / identity codes, all 2048 Gray codes, unit + random + recorded frames (any letter "
                "case) through crc/icao/df/typecode/hex2bin/data/allzeros/wrongstatus/idcode/altcode, short bit / hex strings, rational "
                "floor arguments, address-block boundaries, the C06 latitude set - in lanes P, T and (fresh functions) B; library "
                "level: quick vector sets of C07-C10, C12, C13 in lane T; distinct = (lane, fn, abstract input)")
    ctx.assumptions += ["no Cython here: lane T interprets the .pyx with C coercion semantics; lane B is the Cython output found next to "
                        "the .pyx and only counts for functions whose embedded source equals the working tree",
                        "hex2int / bin2int are driven with inputs that fit a C long (<= 30 bits)"]
    ctx.model_check("MC_C07", cfg="MC_C07.cfg", what="altitude / identity codecs")
    ctx.model_check("MC_ADSB", cfg="MC_ADSB.cfg", what="ADS-B ME layouts")
    ctx.defer_guards = False
    fv = function_vectors(ctx)
    builddir = tempfile.mkdtemp(prefix="verif_cbuild_")
    os.environ["VERIF_CBUILD"] = builddir
    try:
        per_lane = {}

        def settle(lane, evs):
            """distinct cases, samples, trace validation and verdicts of one lane; its events are dropped afterwards"""
            for e in evs:
                ctx.distinct.add(hash((lane, e["fn"], repr(e.get("frame") or e.get("code") or e.get("text") or e.get("bits") or e.get("x") or e.get("addr") or e.get("num")))))
            per_lane[lane] = len(evs)
            if evs and lane in ("T", "B"):
                ctx.samples += [evs[0], evs[-1]] if lane == "T" else [evs[0]]
            # ids are unique across lanes already (ctx assigns them)
            ctx.judge(ctx.validate(evs))

        def key(e):
            return hash(repr(sorted(strip(e).items(), key=lambda kv: kv[0])))

        ev_p = ctx.replay([dict(v) for v in fv], lane="P")
        pmap = {key(e): e["res"] for e in ev_p}
        settle("P", ev_p)
        del ev_p
        try:
            ev_t = ctx.replay([dict(v) for v in fv], lane="T")
        except tlc.MachineryError as e:
            raise tlc.MachineryError("lane T (transliterated .pyx) unavailable: %s" % str(e)[-600:])
        # the statement itself, literally: the same input gives the same result in both modules (the C sentinels standing for
        # None).  Each lane is judged against the spec below as well, but where the spec allows either of two values (cprNL
        # within 1e-9 deg of a transition) only this comparison sees the twins part.
        SENT = {"common.typecode": (-1,), "common.gray2alt": (-1, -999999), "common.altitude": (-999999, -1), "common.altcode": (-999999, -1)}
        ndis = 0
        for e in ev_t:
            rp = pmap.get(key(e))
            rt = e["res"]
            if rp is None or rp == rt:
                continue
            if rp.get("t") == "n" and rt.get("t") == "i" and rt.get("v") in SENT.get(e["fn"], ()):
                continue
            if rp.get("t") == "b" and rt.get("t") in ("b", "i") and rp.get("v") == rt.get("v"):
                continue
            ndis += 1
            if ndis <= 200:
                ctx.violation("c_and_python_twins_disagree", dict(strip(e), id=e["id"], res=rt, res_py=rp))
        ctx.extra["lane_P_vs_T_disagreements"] = ndis
        del pmap
        b_ok, stale = set(), {}
        ev_b = None
        try:
            b_ok, stale = call_closure()
            ev_b = ctx.replay([dict(v) for v in fv if fn_of(v) in b_ok], lane="B")
        except (lanes.LaneUnavailable, tlc.MachineryError) as e:
            ctx.notes.append("lane B unavailable: %s" % str(e)[-300:])
        ctx.extra["lane_B_fresh_functions"] = sorted(b_ok & set(SHARED))
        ctx.extra["lane_B_stale_functions"] = {k: v for k, v in stale.items()}
        # fidelity of lane T: wherever B is fresh, T and B must return the same thing on every vector
        if ev_b is not None:
            tmap = {}
            for e in ev_t:
                if fn_of(e) in b_ok:
                    tmap.setdefault(key(e), e["res"])
            bad = 0
            for e in ev_b:
                if tmap.get(key(e)) != e["res"]:
                    bad += 1
                    if bad <= 3:
                        ctx.notes.append("T/B disagreement on %s: T=%r B=%r" % (strip(e), tmap.get(key(e)), e["res"]))
            ctx.extra["lane_T_vs_B_vectors_compared"] = len(ev_b)
            ctx.extra["lane_T_vs_B_disagreements"] = bad
            del tmap
            if bad:
                raise tlc.MachineryError("lane T (interpreted .pyx) disagrees with the compiled, fresh C on %d vectors: %s" % (bad, ctx.notes[-1]))
        settle("T", ev_t)
        del ev_t
        if ev_b is not None:
            settle("B", ev_b)
            del ev_b
        # library level under the .pyx lane
        settle("T-lib", ctx.replay([dict(v) for v in library_vectors(ctx)], lane="T"))
        ctx.extra["events_per_lane"] = per_lane
    finally:
        shutil.rmtree(builddir, ignore_errors=True)
        os.environ.pop("VERIF_CBUILD", None)


def replay(ctx, path):
    import json
    with open(path) as f:
        cases = json.load(f)["cases"]
    by = {}
    for c in cases:
        e = dict(c["event"])
        lane = e.get("lane", "P")
        for k in ("res", "id", "lane"):
            e.pop(k, None)
        by.setdefault(lane, []).append(e)
    builddir = tempfile.mkdtemp(prefix="verif_cbuild_")
    os.environ["VERIF_CBUILD"] = builddir
    try:
        allev = []
        for lane, vs in by.items():
            allev += ctx.replay(vs, lane=lane)
        ctx.judge(ctx.validate(allev))
    finally:
        shutil.rmtree(builddir, ignore_errors=True)
