"""Registry: event function name -> how to call the real library for a vector."""
import random

from . import enc

CALLS = {}


def reg(name):
    def deco(f):
        CALLS[name] = f
        return f
    return deco


def hx(v, key="frame"):
    """hex text of the frame in vector v. v["cs"]: 0 upper, 1 lower, k>=2 mixed (seeded by k)."""
    if "text" in v and key == "frame":
        return enc.untext(v["text"])
    s = bytes(v[key]).hex()
    cs = v.get("cs", 0)
    if cs == 0:
        return s.upper()
    if cs == 1:
        return s
    r = random.Random(cs)
    return "".join(c.upper() if r.random() < 0.5 else c for c in s)


def apply(pm, v):
    f = CALLS.get(v["fn"])
    if f is None:
        raise KeyError("no call registered for fn=%r" % v["fn"])
    try:
        return f(pm, v)
    except Exception as e:  # noqa: BLE001
        return enc.exc(e)


# ---- C01 ----
@reg("crc")
def _crc(pm, v):
    return enc.res(pm.common.crc(hx(v), bool(v["enc"])))


@reg("crc_legacy")
def _crcl(pm, v):
    from pyModeS import py_common
    return enc.res(py_common.crc_legacy(hx(v), bool(v["enc"])))


# ---- C02 ----
@reg("icao")
def _icao(pm, v):
    return enc.res(pm.icao(hx(v)))


@reg("adsb.icao")
def _aicao(pm, v):
    return enc.res(pm.adsb.icao(hx(v)))


@reg("allcall.icao")
def _acicao(pm, v):
    return enc.res(pm.allcall.icao(hx(v)))


# ---- C07 / C08 ----
def _bits13(v):
    return format(v["code"], "013b")


@reg("common.altitude")
def _c_alt(pm, v):
    return enc.res(pm.common.altitude(_bits13(v)))


@reg("common.altcode")
def _c_altcode(pm, v):
    return enc.res(pm.common.altcode(hx(v)))


@reg("surv.altitude")
def _s_alt(pm, v):
    return enc.res(pm.surv.altitude(hx(v)))


@reg("adsb.altitude")
def _a_alt(pm, v):
    return enc.res(pm.adsb.altitude(hx(v)), 25000)


@reg("adsb.altitude05")
def _a_alt05(pm, v):
    return enc.res(pm.adsb.altitude05(hx(v)), 25000)


@reg("common.squawk")
def _c_sq(pm, v):
    return enc.res(pm.common.squawk(_bits13(v)))


@reg("common.idcode")
def _c_id(pm, v):
    return enc.res(pm.common.idcode(hx(v)))


@reg("surv.identity")
def _s_id(pm, v):
    return enc.res(pm.surv.identity(hx(v)))


@reg("adsb.emergency_squawk")
def _a_esq(pm, v):
    return enc.res(pm.adsb.emergency_squawk(hx(v)))


for _n in ("fs", "dr", "um"):
    def _mk(n):
        def f(pm, v):
            return enc.res(getattr(pm.surv, n)(hx(v)))

        def g(pm, v):
            from pyModeS import py_common
            return enc.res(getattr(py_common, n)(hx(v)))
        return f, g
    _f, _g = _mk(_n)
    CALLS["surv." + _n] = _f
    CALLS["common." + _n] = _g


@reg("allcall.capability")
def _ac_cap(pm, v):
    return enc.res(pm.allcall.capability(hx(v)))


@reg("allcall.interrogator")
def _ac_int(pm, v):
    return enc.res(pm.allcall.interrogator(hx(v)))
