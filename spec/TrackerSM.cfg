SPECIFICATION Spec
INVARIANT Fresh
INVARIANT Gate
INVARIANT Accurate
CONSTRAINT Bounded
CHECK_DEADLOCK FALSE
CONSTANTS
 Start = 1
 DTs = {1, 19, 21, 123, 362}
 MaxLevel = 6
