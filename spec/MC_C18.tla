------------------------------- MODULE MC_C18 -------------------------------
(* Role A for C18: address recovery by division inverts the AP formed by     *)
(* multiplication, for unit / extreme / seeded addresses, both lengths and    *)
(* all field patterns; the selective and all-call field builders round-trip. *)
EXTENDS Uplink, TLC

CONSTANT Seeded
VARIABLE j

Addrs == {0, 16777215} \cup {Pow2(k) : k \in 0..23} \cup Seeded
Init == j \in ([k : {"addr"}, a : Addrs, uf : {4, 5, 20, 21, 11, 0, 16, 24}] \cup [k : {"sel"}, rr : 0..31, di : 0..7] \cup [k : {"ac"}, pr : 0..15])
Next == UNCHANGED j /\ FALSE

AddrRoundTrip == j.k = "addr" => \A sd \in {0, 65535, 43690, 4660} :
   LET f == IF j.uf = 11 THEN BuildUF11(sd % 16, (sd \div 16) % 16, (sd \div 256) % 8, j.a)
            ELSE BuildSelective(j.uf, sd % 8, (sd \div 8) % 32, (sd \div 256) % 8, sd, j.uf >= 16, j.a)
   IN  UplinkIcao(f) = j.a /\ UF(f) = j.uf

SelectiveFields == j.k = "sel" => \A x \in 0..63, los \in 0..1 :
   LET iis == x % 16  rrs == x \div 4
       sd == IF j.di = 3 THEN x * 1024 + los * 512 + rrs * 32         \* SIS(6) LSS(1) RRS(4) at 17-22, 23, 24-27
             ELSE iis * 4096 + rrs * 256 + los * 64                   \* IIS(4) RRS(4) . LOS at 17-20, 21-24, 26
       f == BuildSelective(20, 5, j.rr, j.di, sd, TRUE, 11259375)
   IN  /\ RR(f) = j.rr /\ DI(f) = j.di /\ PC(f) = 5
       /\ (j.di = 3 => SIS(f) = x /\ LSS(f) = los /\ RRS(f) = rrs)
       /\ (j.di \in {0, 1, 7} => IIS(f) = iis /\ LOS(f) = los)
       /\ (j.di = 7 => RRS(f) = rrs)
       /\ UplinkIcao(f) = 11259375

AllCallFields == j.k = "ac" => \A ic \in 0..15, cl \in 0..7 :
   LET f == BuildUF11(j.pr, ic, cl, 16777215)
   IN  PR(f) = j.pr /\ IC11(f) = ic /\ CL(f) = cl /\ UF(f) = 11 /\ UplinkIcao(f) = 16777215
=============================================================================
