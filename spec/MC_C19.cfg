INIT Init
NEXT Next
INVARIANT Reference
INVARIANT QuietPairRule
CHECK_DEADLOCK FALSE
CONSTANT MaxFrames = 1
CONSTANT MaxOff = 1
