"""Signature predicates for known findings (see known_findings.json)."""
from .findings import sig  # noqa: F401
