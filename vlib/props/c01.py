"""C01 - CRC-24: exact remainder, parity closure, error detection.

A: MC_C01 (TLC, exhaustive): ByteRem = BitRem on a basis + table linearity; parity closure;
   minimum distance >= 6 (112 and 56 bits); all bursts <= 24 at every offset detected.
B/C: structured + random + error-injected + recorded frames -> real crc()/crc_legacy() ->
   every event validated by TLC (Trace.V_crc: result = remainder / parity computed by the spec).
"""
import itertools

from .. import gen


def unit(n, i):
    f = [0] * n
    f[(i - 1) // 8] = 0x80 >> ((i - 1) % 8)
    return f


def xor(a, b):
    return [x ^ y for x, y in zip(a, b)]


def vectors(ctx):
    rng = ctx.rng
    V = []

    def add(frame, enc=0, fn="crc", tag="", cs=0):
        V.append({"fn": fn, "frame": list(frame), "enc": enc, "tag": tag, "cs": cs})

    # (1) every unit frame, both lengths, both modes, both implementations
    for n in (14, 7):
        for i in range(1, 8 * n + 1):
            f = unit(n, i)
            add(f, 0, tag="unit")
            add(f, 1, tag="unit")
            add(f, 0, "crc_legacy", tag="unit")
            add(f, 1, "crc_legacy", tag="unit")
    # (2) every single-byte frame
    for n in (14, 7):
        for p in range(n):
            for b in range(1, 256):
                f = [0] * n
                f[p] = b
                add(f, 0, tag="byte")
                if b % 16 == 1:
                    add(f, 1, tag="byte")
    # (3) two-bit frames
    pairs112 = list(itertools.combinations(range(1, 113), 2))
    pairs56 = list(itertools.combinations(range(1, 57), 2))
    if ctx.quick:
        pairs112 = pairs112[::3]
        pairs56 = pairs56[::3]
    for i, j in pairs112:
        add(xor(unit(14, i), unit(14, j)), 0, tag="two")
    for i, j in pairs56:
        add(xor(unit(7, i), unit(7, j)), 0, tag="two")
    # (4) encode=True must ignore the last 24 bits and give the closing parity
    nrand = ctx.pick(4000, 800000)
    for k in range(nrand // 4):
        n = 14 if k % 3 else 7
        d = [rng.randrange(256) for _ in range(n - 3)]
        t1 = [rng.randrange(256) for _ in range(3)]
        add(d + t1, 1, tag="enc", cs=rng.choice([0, 1, 2 + k]))
        add(d + [0, 0, 0], 1, tag="enc")
        add(gen.with_parity(d), 0, tag="closure")
    # (5) random frames (also frames with runs of zero bytes: data-dependent shortcuts)
    for k in range(nrand):
        f = gen.rand_frame(rng)
        if k % 5 == 0:
            a = rng.randrange(len(f))
            b = rng.randrange(a, len(f) + 1)
            for q in range(a, b):
                f[q] = 0
        add(f, 0, tag="rand", cs=rng.choice([0, 0, 1, 2 + k]))
        if k % 50 == 0:
            add(f, k % 2, "crc_legacy", tag="rand")
    # (5b) frames whose last 24 bits repeat an earlier part of the frame (text-level shortcuts), both modes, any case
    for df in (0, 4, 5, 11, 16, 17, 20, 21):
        for f in gen.selfsimilar(rng, df):
            add(f, 0, tag="selfsim", cs=rng.choice([0, 1, 2 + df]))
            add(f, 1, tag="selfsim", cs=rng.choice([0, 1, 2 + df]))
    # (5d) frames whose leading k bytes are a complete codeword (remainder zero part-way through the division), followed by
    # zero bytes and / or more data: concatenations of valid frames, a valid short frame padded to the long length, ...
    for k in range(ctx.pick(1500, 40000)):
        n = 14 if k % 4 else 7
        cut = rng.randrange(4, n)
        head = gen.with_parity([rng.randrange(256) for _ in range(cut - 3)])
        rest = [0 if rng.random() < 0.5 else rng.randrange(256) for _ in range(n - cut)]
        if rest and k % 2:
            rest[0] = 0
        f = head + rest
        add(f, 0, tag="prefixcw", cs=rng.choice([0, 1]))
        add(f, 1, tag="prefixcw")
    # (5c) call histories: related frames (shared prefix across the two lengths, same data with another parity field, same
    # frame in another letter case) one after the other in one process - each result may depend on its own argument only
    for k in range(ctx.pick(400, 20000)):
        s7 = gen.rand_frame(rng, 7) if k % 2 else gen.with_parity([rng.randrange(256) for _ in range(4)])
        l14 = s7[:4] + [rng.randrange(256) for _ in range(10)]
        l14b = l14[:11] + [rng.randrange(256) for _ in range(3)]
        pool = [s7, l14, l14b, s7[:4] + [rng.randrange(256) for _ in range(3)], gen.with_parity(l14[:11])]
        calls = []
        for _ in range(rng.randint(2, 5)):
            calls.append({"frame": rng.choice(pool), "enc": rng.randrange(2), "cs": rng.choice([0, 0, 1, 2 + k])})
        V.append({"fn": "crc.seq", "calls": calls, "tag": "seq"})
    # (6) error injection into valid frames: weight 1..5 and bursts <= 24 at every offset
    bases = []
    for n in (14, 7):
        for _ in range(ctx.pick(2, 30)):
            bases.append(gen.with_parity([rng.randrange(256) for _ in range(n - 3)]))
    smp = gen.sample_frames("adsb")
    if smp:
        bases.append(list(bytes.fromhex(smp[0][1])))
    for base in bases:
        n = len(base)
        nb = 8 * n
        for i in range(1, nb + 1):
            add(xor(base, unit(n, i)), 0, tag="err1")
        prs = list(itertools.combinations(range(1, nb + 1), 2))
        for i, j in prs[::ctx.pick(7, 1)]:
            add(xor(base, xor(unit(n, i), unit(n, j))), 0, tag="err2")
        for _ in range(ctx.pick(300, 5000)):
            w = rng.choice([3, 4, 5])
            f = list(base)
            for i in rng.sample(range(1, nb + 1), w):
                f = xor(f, unit(n, i))
            add(f, 0, tag="err%d" % w)
        for off in range(nb):
            for ln in range(1, min(24, nb - off) + 1):
                if ctx.quick and (ln * 7 + off) % 5:
                    continue
                # burst: first and last bit flipped, interior random
                f = list(base)
                for q in range(ln):
                    if q in (0, ln - 1) or rng.random() < 0.5:
                        f = xor(f, unit(n, off + q + 1))
                add(f, 0, tag="burst")
    # (7) recorded traffic
    for kind in ("adsb", "df20", "df21"):
        for ts, msg, ic in gen.sample_frames(kind)[:ctx.pick(600, 100000)]:
            add(list(bytes.fromhex(msg)), 0, tag="sample")
            add(list(bytes.fromhex(msg)), 1, tag="sample")
    return V


def case_of(e):
    if e["fn"] == "crc.seq":
        return ("seq", tuple((bytes(c["frame"]), c["enc"]) for c in e["calls"]))
    if not any(e["frame"]):
        return None
    return (e["fn"], e["enc"], bytes(e["frame"]))


def run(ctx):
    ctx.rule = ("frames: all unit / single-byte / two-bit frames of both lengths, random frames (incl. zero runs), "
                "encode=True with differing parity fillings, valid frames with every 1-2-bit error, seeded 3-5-bit "
                "errors and bursts <=24 at every offset, recorded sample traffic; distinct = distinct (fn, encode, "
                "frame) with a non-zero frame")
    ctx.assumptions += ["TLC evaluates the TLA+ operators correctly (32-bit integer arithmetic, Bitwise overrides)",
                        "lemma L1 argument: ByteRem equals BitRem on a basis and both are GF(2)-linear"]
    ctx.model_check("MC_C01", cfg="MC_C01.cfg", what="C01 CRC lemmas")
    V = vectors(ctx)
    ev, rej = ctx.check_events(V, case_of=case_of)
    # property-level cross-check on the error-injection events (TLC already proved the syndrome is non-zero;
    # the implementation's result equals the spec's remainder, hence non-zero): recount here for the evidence
    inj = [e for e in ev if e["tag"].startswith("err") or e["tag"] == "burst"]
    ctx.extra["error_patterns_checked"] = len(inj)
    ctx.extra["error_patterns_reported_valid"] = sum(1 for e in inj if e["res"].get("v") == 0)
    for e in inj:
        if e["res"].get("v") == 0 and not any(r[0] is e for r in rej):
            ctx.violation("corrupted_frame_checks_valid", e)


def replay(ctx, path):
    import json
    with open(path) as f:
        cases = json.load(f)["cases"]
    V = []
    for c in cases:
        e = dict(c["event"])
        e.pop("res", None)
        e.pop("id", None)
        V.append(e)
    ctx.check_events(V, case_of=lambda e: e.get("id"))
