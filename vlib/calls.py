"""Registry: event function name -> how to call the real library for a vector."""
import random

from . import enc

CALLS = {}


def reg(name):
    def deco(f):
        CALLS[name] = f
        return f
    return deco


def hx(v, key="frame"):
    """hex text of the frame in vector v. v["cs"]: 0 upper, 1 lower, k>=2 mixed (seeded by k)."""
    if "text" in v and key == "frame":
        return enc.untext(v["text"])
    s = bytes(v[key]).hex()
    cs = v.get("cs", 0)
    if cs == 0:
        return s.upper()
    if cs == 1:
        return s
    r = random.Random(cs)
    return "".join(c.upper() if r.random() < 0.5 else c for c in s)


def apply(pm, v):
    f = CALLS.get(v["fn"])
    if f is None:
        raise KeyError("no call registered for fn=%r" % v["fn"])
    try:
        return f(pm, v)
    except Exception as e:  # noqa: BLE001
        return enc.exc(e)


# ---- C01 ----
@reg("crc")
def _crc(pm, v):
    return enc.res(pm.common.crc(hx(v), bool(v["enc"])))


@reg("crc_legacy")
def _crcl(pm, v):
    from pyModeS import py_common
    return enc.res(py_common.crc_legacy(hx(v), bool(v["enc"])))


# ---- C02 ----
@reg("icao")
def _icao(pm, v):
    return enc.res(pm.icao(hx(v)))


@reg("adsb.icao")
def _aicao(pm, v):
    return enc.res(pm.adsb.icao(hx(v)))


@reg("allcall.icao")
def _acicao(pm, v):
    return enc.res(pm.allcall.icao(hx(v)))
