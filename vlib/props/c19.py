"""C19 - the software demodulator recovers cleanly modulated frames.

A: MC_C19 (TLC): Demod(Modulate(frames)) = frames (bad-parity DF17 dropped) for frame lists of length 0..1 (thorough 0..2)
   over DF4/5/11/17/20/21 + a bad-parity DF17, offsets 0..3, gaps 1-2 frame lengths, amplitudes 0.3/0.7/1.4, five
   deterministic noise settings; for the reference processor up to -10 dB noise and for the library's quiet-pair rule
   below 0.2 x amplitude.
B/C: seeded random buffers (1-3 valid frames of all six formats + bad-parity DF17 decoys, random offsets / gaps /
   amplitudes 0.3-1.4, uniform noise) -> RtlReader._process_buffer() on an instance made with object.__new__ -> TLC
   (TV_Demod): output = modulated frames in order as upper-case hex, no DF17 with non-zero syndrome, and equality with
   the spec's processor run over the same integer samples.
"""
from .. import gen
from . import c01

PRE = {0, 2, 7, 9}


def modulate(rng, frames, amps, lead, gaps, tail, peak, flat=False):
    sig = []

    class _Flat:
        """constant noise: every low sample equals `peak` (the measured noise floor is then exactly `peak`)"""
        @staticmethod
        def randrange(a, b):
            return b - 1

    if flat:
        rng = _Flat

    def noise(n):
        return [rng.randrange(0, peak + 1) for _ in range(n)]

    sig += noise(lead)
    for f, amp, gap in zip(frames, amps, gaps):
        for k in range(16):
            sig.append(amp if k in PRE else rng.randrange(0, peak + 1))
        for byte in f:
            for b in range(7, -1, -1):
                bit = (byte >> b) & 1
                lo = rng.randrange(0, peak + 1)
                sig += [amp, lo] if bit else [lo, amp]
        sig += noise(gap)
    sig += noise(tail)
    return sig


def rand_valid(rng):
    df = rng.choice([4, 5, 11, 17, 17, 20, 21])
    if df == 17:
        return gen.with_parity([(17 << 3) | rng.randrange(8)] + [rng.randrange(256) for _ in range(10)])
    n = 14 if df >= 16 else 7
    f = [rng.randrange(256) for _ in range(n)]
    f[0] = (df << 3) | (f[0] & 7)
    return f


def vectors(ctx):
    rng = ctx.rng
    V = []
    for k in range(ctx.pick(500, 12000)):
        n = rng.choice([0, 1, 1, 2, 2, 3])
        busy = k % 32 == 3
        if busy:
            n = rng.randint(6, 9)         # a busy buffer: most 100-us windows hold part of a frame, amplitudes mixed
        frames, sent, amps, gaps = [], [], [], []
        same_amp = rng.randrange(300, 1401)
        valid = []
        for _ in range(n):
            if k % 6 == 4 and frames and rng.random() < 0.6:
                # the same transmission again within the buffer (an all-call or surveillance reply repeated, a squitter received
                # twice): every occurrence is a frame of its own and must come back, in order
                j = rng.randrange(len(frames))
                f = list(frames[j])
                if valid[j]:
                    sent.append(f)
                valid.append(valid[j])
            elif rng.random() < 0.15:       # decoy: DF17 with a wrong checksum must never be returned
                f = gen.with_parity([(17 << 3) | 5] + [rng.randrange(256) for _ in range(10)])
                f[rng.randrange(1, 14)] ^= 1 << rng.randrange(8)
                valid.append(False)
            else:
                f = rand_valid(rng)
                sent.append(f)
                valid.append(True)
            frames.append(f)
            amps.append(same_amp if (k % 3 and not busy) else rng.randrange(300, 1401))
            if busy:
                amps[-1] = rng.choice([1400, 1350, 1400, 1300, rng.randrange(300, 520)])
            flen = 16 * len(f)            # one frame length (the 56 / 112 data bits) of noise is the minimum the statement allows
            gaps.append(flen + (rng.choice([0, 0, 1, 2, 16]) if busy else rng.choice([0, 0, 1, 2, 16, rng.randrange(0, 2 * flen)])))
        amin = min(amps) if amps else 300
        # noise class: "quiet" = every noise sample below 0.2 x the weakest pulse (minus a margin for the comparison
        # against 0.2 x max of the slicing window when amplitudes differ); "ten_db" = up to -10 dB of the weakest pulse
        cls = "quiet" if k % 4 else "ten_db"
        if cls == "quiet":
            peak = rng.choice([0, amin // 50, amin // 10, (amin * 19) // 100])
        else:
            peak = rng.randrange(amin // 5 + 1, (amin * 316) // 1000)
            if peak >= 200:
                cls = "ten_db_abs"      # noise reaches the absolute tolerance (0.2) of the preamble template
        flat = False
        if k % 8 == 5:
            # the gate itself: constant noise whose level is the measured floor, weakest pulse just above 10 dB (x3.163 .. x3.3)
            flat = True
            peak = (amin * 1000) // rng.choice([3163, 3170, 3200, 3300])
            cls = "flat_ten_db"
        lead = rng.randrange(0, 40)
        tail = 420 + rng.randrange(0, 200)
        if k % 8 == 1 and frames and not busy:
            # the buffer boundaries themselves: first frame at sample 0, last frame ending on the very last sample (a quiet
            # 100-us window for the noise floor is then provided between the frames)
            gaps = [max(g, 16 * len(f) + 260) for g, f in zip(gaps, frames)]
            if len(frames) >= 2:
                lead, tail = 0, 0
                gaps[-1] = 0
                if rng.random() < 0.6:
                    amps[-1] = min(1400, max(amps) + rng.randrange(40, 300))      # the frame at the very end is the strongest
            elif k % 16 == 9:
                lead = 0                          # a single frame: flush with the start ...
            else:
                lead, tail = 260 + rng.randrange(0, 100), 0   # ... or with the end of the buffer
                gaps[-1] = 0
        sig = modulate(rng, frames, amps, lead, gaps, tail, peak, flat)
        V.append({"fn": "demod", "sig": sig, "sent": sent, "cls": cls, "stop": 1, "case": [k, n, cls, peak, amin]})
    return V


def case_of(e):
    return tuple(e["case"])


def run(ctx):
    ctx.rule = ("buffers of 0-3 frames (DF4/5/11/17/20/21 valid, 15 % bad-parity DF17 decoys), lead 0-39 samples, gaps 1-3 frame "
                "lengths, >= 420 trailing noise samples, amplitudes 300..1400 (x1000; equal or per-frame), uniform integer noise with "
                "peak 0 .. 0.19 x weakest pulse ('quiet') or 0.2 .. 0.316 x ('ten_db', 1/4), or constant noise at weakest pulse / 3.163 .. 3.3 "
                "('flat_ten_db', 1/8: the 10 dB gate itself); distinct = buffers")
    ctx.assumptions += ["'at least 10 dB above the noise floor' is read as: every noise sample at most amp/3.162 (the reading that asks "
                        "least of the code); samples are integers x1000 handed to the code as floats; buffers hold >= 200 samples and a "
                        "fully quiet 100-us window, as any real 100 ms buffer does"]
    import os
    from .. import tlc
    cfg = open(os.path.join(tlc.SPEC_DIR, "MC_C19.cfg")).read().replace("MaxFrames = 1", "MaxFrames = %d" % ctx.pick(1, 2)).replace("MaxOff = 1", "MaxOff = %d" % ctx.pick(1, 3))
    ctx.model_check("MC_C19", cfg_text=cfg, what="C19 modulate/demodulate identity", timeout=6000)
    ev, rej = ctx.check_events(vectors(ctx), case_of=case_of, shards=16)
    ctx.extra["buffers_by_noise_class"] = {c: sum(1 for e in ev if e["cls"] == c) for c in ("quiet", "ten_db", "ten_db_abs", "flat_ten_db")}
    ctx.extra["frames_modulated"] = sum(len(e["sent"]) for e in ev)


replay = c01.replay
