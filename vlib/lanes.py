"""Selecting which 'common' module the library runs on (lanes P / B / T), and which tree.

Must be called before `import pyModeS`.  The tree is /repo's *current working tree*
(VERIF_REPO overrides the root only for experiments against scratch worktrees).
"""
import importlib.util
import os
import sys

REPO = os.environ.get("VERIF_REPO", "/repo")
SRC = os.path.join(REPO, "src")


class LaneUnavailable(Exception):
    pass


def setup(lane="P", builddir=None):
    for k in [k for k in sys.modules if k == "pyModeS" or k.startswith("pyModeS.")]:
        del sys.modules[k]
    if SRC in sys.path:
        sys.path.remove(SRC)
    sys.path.insert(0, SRC)
    os.environ["PYMODES_VERIF"] = "1"
    if lane == "P":
        sys.modules["pyModeS.c_common"] = None      # `from . import c_common` -> ImportError -> py_common
    elif lane == "B":
        from . import clane
        mod = clane.load_compiled(builddir)
        sys.modules["pyModeS.c_common"] = mod
    elif lane == "T":
        from . import pyx_lane
        mod = pyx_lane.load(os.path.join(SRC, "pyModeS", "c_common.pyx"))
        sys.modules["pyModeS.c_common"] = mod
    else:
        raise ValueError(lane)
    import pyModeS
    assert os.path.realpath(pyModeS.__file__).startswith(os.path.realpath(SRC)), pyModeS.__file__
    want = "pyModeS.py_common" if lane == "P" else "pyModeS.c_common"
    assert pyModeS.common.__name__ == want, (lane, pyModeS.common.__name__)
    return pyModeS
