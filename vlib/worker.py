"""Replay worker: applies recorded call vectors to the real library in one lane.

usage: python -m vlib.worker LANE IN.ndjson OUT.ndjson [JOBS]
Every vector is a JSON object with at least {"id", "fn"}; the result of the call is
added under "res" (tagged encoding, vlib.enc) and the object is written back out.
"""
import json
import multiprocessing as mp
import os
import sys

PM = None


def _apply(chunk):
    from . import calls
    cov = None
    if os.environ.get("VERIF_COVERAGE"):
        # analysis aid (tools/covreport.py): which lines / branches of the library do the vectors of a check reach
        import coverage
        from . import lanes
        cov = coverage.Coverage(data_file=os.path.join(os.environ["VERIF_COVERAGE"], "cov"), data_suffix=True, branch=True,
                                include=[os.path.join(lanes.REPO, "src", "pyModeS", "*")])
        cov.start()
    out = []
    try:
        vs = []
        for line in chunk:
            v = json.loads(line)
            v["res"] = calls.apply(PM, v)
            vs.append(v)
        # purity: the properties quantify over inputs, so a result may depend on the call's own arguments only.  Every 17th
        # call of the chunk is made again, in reverse order, after everything else this process has done in between; a
        # different answer the second time is recorded as a failed call (no validator accepts it).
        for v in reversed(vs[::17]):
            w = {k: x for k, x in v.items() if k != "res"}
            if calls.apply(PM, w) != v["res"]:
                v["res"] = {"t": "x", "v": [ord(c) for c in "ResultDependsOnCallHistory"]}
        out = [json.dumps(v, separators=(",", ":")) for v in vs]
    finally:
        if cov is not None:
            cov.stop()
            cov.save()
    return out


def main():
    global PM
    lane, inp, outp = sys.argv[1:4]
    jobs = int(sys.argv[4]) if len(sys.argv) > 4 else 1
    from . import lanes
    PM = lanes.setup(lane, builddir=os.environ.get("VERIF_CBUILD"))
    with open(inp) as f:
        lines = f.read().splitlines()
    n = len(lines)
    if jobs <= 1 or n < 2000:
        res = _apply(lines)
    else:
        step = max(500, n // (jobs * 4))
        chunks = [lines[i:i + step] for i in range(0, n, step)]
        with mp.get_context("fork").Pool(jobs) as pool:
            res = [x for part in pool.map(_apply, chunks) for x in part]
    with open(outp, "w") as f:
        f.write("\n".join(res))
        f.write("\n")


if __name__ == "__main__":
    main()
