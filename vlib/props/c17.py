"""C17 - live aircraft table: robust, correct positions, bounded staleness.

A: TrackerSM (TLC): two aircraft flying <= 600 kt (<= 70 kt on the surface) from six designed start places (mid-latitude,
   the NL 59/58 transition, equator + Greenwich, antimeridian, 79 deg N, an airport next to the receiver), position /
   other squitters with either parity, Comm-B replies (also from an unknown address), take-off / landing, time steps
   {0.5, 9.5, 10.5, 61.5, 181} s, batches processed at arbitrary points: every interleaving to depth 6 (quick) / 7
   (thorough); invariants Fresh, Gate, Accurate with the documented algorithm in exact CPR arithmetic.
B: behaviours chosen by TLC (`-simulate` over TrackerSM, 40-600 per start place, depth 40-60) are turned into concrete
   frames (CPR fields from the spec's own encoder) and replayed into the real Decode; validated like C.
C: seeded random histories (2-4 aircraft, genuine CPR squitters built by an integer encoder that TLC re-checks, random
   payloads for every other type code, Comm-B incl. unknown addresses, upper / lower / mixed-case hex, batches spanning
   0.5 s .. 200 s) through the real Decode.process_raw; the full projected table after every call is validated by TLC
   (Trace_Tracker): NoRaise, Gate, Fresh (59 s / 61 s), Accurate (0.001 deg against the ground truth), model equality
   (positions, slots, and the rest of the table: callsign, velocity, altitude, Comm-B values, the version-dependent
   quality-indicator state).
Beyond the property's statement (every deviation is MODEL-DRIFT): decode_loop() - the decoder process loop Decode.run
   (DecodeLoop / DecodeLoopMC / Trace_DecodeLoop); viewer() - the screen process (ScreenSM / Trace_Screen).
"""
import concurrent.futures as cf
import json
import os

from .. import gen, cprpy, tlc
from . import c01

POLE = 4194304
PLACES = [(2423000, 205000), (487950, -3000), (-300, -400), (1864000, 8388000), (3681000, 100000), (2435000, 222000),
          (-2100000, -5000000), (-487950, 4194000)]


def wrap(o):
    return ((o + (1 << 23)) % (1 << 24)) - (1 << 23)


def es_frame(rng, addr, tc, me_rest=None, df=17):
    f = [(df << 3) | rng.randrange(8), addr >> 16, (addr >> 8) & 255, addr & 255] + [rng.randrange(256) for _ in range(7)]
    f = gen.set_bits(f + [0, 0, 0], 33, 37, tc)
    return gen.with_parity(f[:11])


def pos_frame(rng, addr, kind, a, o, oe):
    yz, xz = cprpy.encode(kind, a, o, oe)
    tc = rng.randint(9, 18) if kind == "air" else rng.randint(5, 8)
    f = [(17 << 3) | 5, addr >> 16, (addr >> 8) & 255, addr & 255] + [rng.randrange(256) for _ in range(7)] + [0, 0, 0]
    f = gen.set_bits(f, 33, 37, tc)
    if kind == "surf" and rng.random() < 0.85:      # a usable movement / track so that the tracker looks at the position
        f = gen.set_bits(f, 38, 44, rng.randint(1, 124))
        f = gen.set_bits(f, 45, 45, 1)
    f = gen.set_bits(f, 54, 54, oe)
    f = gen.set_bits(f, 55, 71, yz)
    f = gen.set_bits(f, 72, 88, xz)
    return gen.with_parity(f[:11])


def commb_frame(rng, addr, kind, only=None):
    df = rng.choice([20, 21])
    d = [(df << 3) | rng.randrange(8)] + [rng.randrange(256) for _ in range(3)]
    if kind == "bds50":
        mb = 0
        for w, val in ((1, 1), (1, 0), (9, rng.randrange(0, 200)), (1, 1), (1, 0), (10, rng.randrange(1024)), (1, 1),
                       (10, rng.randrange(100, 250)), (1, 1), (1, 0), (9, rng.randrange(50)), (1, 1), (10, rng.randrange(100, 250))):
            mb = (mb << w) | val
        d += [(mb >> (8 * (6 - k))) & 255 for k in range(7)]
    elif kind == "bds60":
        # a heading / speed report: status-consistent BDS 6,0 payload whose leading field is too large for a BDS 5,0 roll angle
        mb = 0
        for w, val in ((1, 1), (1, rng.randrange(2)), (10, rng.randrange(700, 1024)), (1, 1), (10, rng.randrange(120, 400)), (1, 1),
                       (10, rng.randrange(75, 220)), (1, rng.randrange(2)), (1, rng.randrange(2)), (9, rng.randrange(0, 90)), (1, 1),
                       (1, rng.randrange(2)), (9, rng.randrange(0, 90))):
            mb = (mb << w) | val
        bits = format(mb, "056b")
        if bits[34] == "0":
            bits = bits[:35] + "0" * 10 + bits[45:]
        mb = int(bits, 2)
        d += [(mb >> (8 * (6 - k))) & 255 for k in range(7)]
    elif kind in ("bds60p", "bds50p"):
        # partial availability: every field of the register independently present or flagged unavailable (status, sign and value
        # bits zero), as a transponder with a failed data source reports it.  Keys of the aircraft record that only some replies
        # create (t50 / t60, the vertical rates ...) then exist in every combination
        lay = ([(1, 10, (700, 1024)), (0, 10, (120, 400)), (0, 10, (75, 220)), (1, 9, (0, 90)), (1, 9, (0, 90))] if kind == "bds60p" else
               [(1, 9, (0, 200)), (1, 10, (0, 1024)), (0, 10, (100, 250)), (1, 9, (0, 50)), (0, 10, (100, 250))])
        mb = 0
        for i, (sign, w, (lo, hi)) in enumerate(lay):
            on = rng.random() < 0.55 if only is None else i in only
            mb = (mb << 1) | (1 if on else 0)
            val = rng.randrange(lo, hi) if on else 0
            if sign:
                sg = rng.randrange(2) if on else 0
                mb = (mb << 1) | sg
                if sg and hi <= (1 << w) // 2:
                    val = (1 << w) - max(1, val)            # two's complement: a small magnitude below zero
            mb = (mb << w) | val
        d += [(mb >> (8 * (6 - k))) & 255 for k in range(7)]
    elif kind == "zero":
        d += [0] * 7
    else:
        d += [rng.randrange(256) for _ in range(7)]
    return gen.with_parity(d, addr)


def vel_frame(rng, addr, va, vo, a, vr=None):
    """genuine TC19 subtype-1 ground-speed squitter for a velocity of (va, vo) BAM24 per half second at latitude a"""
    import math
    kn = 2 * va * 360.0 / (1 << 24) * 60 * 3600                                      # kt northwards
    ke = 2 * vo * 360.0 / (1 << 24) * 60 * 3600 * math.cos(math.radians(a * 360.0 / (1 << 24)))
    f = [(17 << 3) | 5, addr >> 16, (addr >> 8) & 255, addr & 255] + [0] * 7 + [0, 0, 0]
    f = gen.set_bits(f, 33, 37, 19)
    f = gen.set_bits(f, 38, 40, 1)
    f = gen.set_bits(f, 46, 46, 1 if ke < 0 else 0)
    f = gen.set_bits(f, 47, 56, min(1023, int(round(abs(ke))) + 1))
    f = gen.set_bits(f, 57, 57, 1 if kn < 0 else 0)
    f = gen.set_bits(f, 58, 67, min(1023, int(round(abs(kn))) + 1))
    f = gen.set_bits(f, 70, 78, vr if vr is not None else 0 if rng.random() < 0.2 else rng.randrange(1, 200))      # 0: vertical rate not available
    return gen.with_parity(f[:11])


def long_gap(ctx, rng, k):
    """a flight as a receiver at the edge of coverage sees it: positions and ground speed while slow, then only identification /
    status squitters (every < 60 s, so the aircraft stays listed) for 15 to 45 minutes while it accelerates and flies on, then
    positions again.  The reference from before the gap is hundreds of miles stale; nothing but its age says so."""
    import math
    polar = k % 16 == 13
    a = rng.randrange(-2800000, 2800000)
    o = rng.randrange(-(1 << 23), 1 << 23)
    addr = rng.randrange(1, 1 << 24)
    ang = rng.random() * 6.283185
    slow, fast = rng.randrange(4, 15), rng.randrange(48, 64)          # BAM24 per half second: 40-140 kt, 450-590 kt
    v1 = (int(slow * math.cos(ang)), int(slow * math.sin(ang)))
    v2 = (int(fast * math.cos(ang)), int(fast * math.sin(ang)))
    if polar:
        # the same flight along a parallel at 80-86 degrees: the meridians are close together there, so the position-less
        # stretch takes the aircraft through 40-180 degrees of longitude; it then lands next to the receiver (surface pair)
        a = rng.choice([-1, 1]) * rng.randrange(3730000, 4008000)
        stretch = 1.0 / math.cos(math.radians(abs(a) * 360.0 / (1 << 24)))
        ew = rng.choice([-1, 1])
        v1 = (0, int(ew * slow * stretch))
        v2 = (rng.choice([-1, 0, 1]), int(ew * fast * stretch))
    rx = [1, cprpy_rx(a), cprpy_rx(o)] if rng.random() < 0.85 else [0, 0, 0]
    now = 2000 + rng.randrange(1000)
    script = []
    oe = rng.randrange(2)

    def call(adsb):
        script.append({"tnow": now, "adsb": adsb, "commb": []})

    for step in range(rng.randint(6, 10)):
        dt = rng.choice([1, 2, 3, 4])
        now += dt
        a, o = a + v1[0] * dt, wrap(o + v1[1] * dt)
        oe = 1 - oe
        msgs = [{"f": pos_frame(rng, addr, "air", a, o, oe), "t": now, "g": 1, "a": a, "o": o}]
        if step % 2:
            msgs.append({"f": vel_frame(rng, addr, v1[0], v1[1], a), "t": now, "g": 0, "a": 0, "o": 0})
        call(msgs)
    lim = 4050000 if polar else 3600000
    for step in range(rng.randint(18, 48)):
        dt = rng.choice([40, 50, 55, 58]) * 2
        now += dt
        a, o = max(-lim, min(lim, a + v2[0] * dt)), wrap(o + v2[1] * dt)
        call([{"f": es_frame(rng, addr, rng.choice([1, 2, 3, 4, 28, 29, 31, 23, 0])), "t": now, "g": 0, "a": 0, "o": 0}])
    kind = "air"
    if polar:
        # on the ground beside the receiver (which therefore sits at the landing place, not where the flight was first heard)
        kind = "surf"
        v2 = (0, int(v2[1] / 9))
        rx = [1, cprpy_rx(a) + rng.randrange(-200, 200), cprpy_rx(o) + rng.randrange(-200, 200)]
    for step in range(rng.randint(4, 7)):
        dt = rng.choice([1, 2, 3])
        now += dt
        a, o = max(-lim, min(lim, a + v2[0] * dt)), wrap(o + v2[1] * dt)
        oe = 1 - oe
        f = pos_frame(rng, addr, kind, a, o, oe)
        if kind == "surf":
            f = gen.with_parity(gen.set_bits(gen.set_bits(f, 38, 44, rng.randint(30, 100)), 45, 45, 1)[:11])
        call([{"f": f, "t": now, "g": 1, "a": a, "o": o}])
    return {"fn": "tracker.run", "rx": rx, "script": script, "lower": rng.choice([0, 0, 1, 2])}


def slow_pairs(ctx, rng, k):
    """even / odd frames of one aircraft arriving 9.5 .. 48 s apart with no usable reference (first contact, and again after
    more than 180 s of silence about its position): only the pairs inside 10 s may be decoded.  The aircraft moves at the top of
    the assumed envelope (surface ~65 kt next to the receiver, or airborne ~590 kt), so a pair accepted late is a zone off."""
    surf = k % 16 == 1
    import math
    ang = rng.random() * 6.283185
    sp = 7 if surf else rng.randrange(56, 64)                   # BAM24 per half second
    v = (int(round(sp * math.cos(ang))), int(round(sp * math.sin(ang))))
    a = rng.randrange(-2600000, 2600000)
    o = rng.randrange(-(1 << 23), 1 << 23)
    rx = [1, cprpy_rx(a) + rng.randrange(-300, 300), cprpy_rx(o) + rng.randrange(-300, 300)]
    addr = rng.randrange(1, 1 << 24)
    kind = "surf" if surf else "air"
    now = 2000 + rng.randrange(1000)
    script = []
    oe = rng.randrange(2)

    def fly(dt):
        nonlocal a, o, now
        now += dt
        a, o = max(-3600000, min(3600000, a + v[0] * dt)), wrap(o + v[1] * dt)

    def pos():
        nonlocal oe
        oe = 1 - oe
        f = pos_frame(rng, addr, kind, a, o, oe)
        if surf:
            f = gen.with_parity(gen.set_bits(gen.set_bits(f, 38, 44, rng.randint(30, 100)), 45, 45, 1)[:11])
        script.append({"tnow": now, "adsb": [{"f": f, "t": now, "g": 1, "a": a, "o": o}], "commb": []})

    for rnd in range(rng.randint(2, 3)):
        pos()
        fly(rng.choice([19, 21, 41, 61, 81, 95]))                # half seconds: 9.5 s (a pair) / 10.5 .. 47.5 s (not a pair)
        pos()
        fly(rng.choice([19, 21, 45, 90]))
        pos()
        for _ in range(rng.randint(4, 6)):                       # keep it listed without a position for > 180 s
            fly(rng.choice([90, 100, 110]))
            script.append({"tnow": now, "adsb": [{"f": es_frame(rng, addr, rng.choice([1, 2, 3, 4, 28, 31])), "t": now, "g": 0, "a": 0, "o": 0}], "commb": []})
    fly(2)
    pos()
    fly(2)
    pos()
    return {"fn": "tracker.run", "rx": rx, "script": script, "lower": rng.choice([0, 0, 1, 2])}


def key_orders(ctx, rng, k):
    """one aircraft, heard without a break, sending the *minimal* form of every kind of message in a random order: Comm-B replies
    with exactly one field of BDS 5,0 / 6,0 available (either sign), complete and empty ones, velocity squitters with and without
    a vertical rate, identification / status / position squitters.  The aircraft record is a dict whose keys are created by some
    message kinds and read by others; over the histories every ordered pair (creator before reader, reader before creator) occurs"""
    a = rng.randrange(-2800000, 2800000)
    o = rng.randrange(-(1 << 23), 1 << 23)
    addr = rng.randrange(1, 1 << 24)
    va, vo = rng.randrange(-40, 41), rng.randrange(-40, 41)
    rx = [1, cprpy_rx(a), cprpy_rx(o)] if rng.random() < 0.5 else [0, 0, 0]
    now = 2000 + rng.randrange(1000)
    cat = []
    for reg in ("bds60p", "bds50p"):
        for i in range(5):
            cat += [("c", reg, [i])] * 2                   # drawn twice: both signs turn up
        cat += [("c", reg, [3, 4]), ("c", reg, [0, 1, 2]), ("c", reg, [0, 1, 2, 3, 4])]
    cat += [("c", "zero", None), ("c", "rand", None), ("c", "bds50", None), ("c", "bds60", None)]
    cat += [("v", 0), ("v", 0), ("v", None), ("v", 100)]
    cat += [("e", tc) for tc in (1, 4, 19, 19, 28, 29, 31, 31, 0)]
    cat += [("p", 0), ("p", 1), ("p", 0), ("p", 1)]
    rng.shuffle(cat)
    script = []
    oe = rng.randrange(2)
    script.append({"tnow": now, "adsb": [{"f": es_frame(rng, addr, 4), "t": now, "g": 0, "a": 0, "o": 0}], "commb": []})
    for item in cat[:rng.randint(10, 22)]:
        dt = rng.choice([1, 1, 2, 3, 8])
        now += dt
        a, o = a + va * dt, wrap(o + vo * dt)
        adsb, commb = [], []
        if item[0] == "c":
            commb.append({"f": commb_frame(rng, addr, item[1], only=item[2]), "t": now, "g": 0, "a": 0, "o": 0})
        elif item[0] == "v":
            adsb.append({"f": vel_frame(rng, addr, va, vo, a, vr=item[1]), "t": now, "g": 0, "a": 0, "o": 0})
        elif item[0] == "e":
            adsb.append({"f": es_frame(rng, addr, item[1], df=rng.choice([17, 18])), "t": now, "g": 0, "a": 0, "o": 0})
        else:
            oe = item[1]
            adsb.append({"f": pos_frame(rng, addr, "air", a, o, oe), "t": now, "g": 1, "a": a, "o": o})
        script.append({"tnow": now, "adsb": adsb, "commb": commb})
    return {"fn": "tracker.run", "rx": rx, "script": script, "lower": rng.choice([0, 0, 1, 2])}


def history(ctx, rng, k):
    if k % 8 == 5:
        return long_gap(ctx, rng, k)
    if k % 8 == 3:
        return key_orders(ctx, rng, k)
    if k % 8 == 1:
        return slow_pairs(ctx, rng, k)
    place = PLACES[k % len(PLACES)] if k % 3 else (rng.randrange(-3600000, 3600000), rng.randrange(-(1 << 23), 1 << 23))
    nac = rng.randint(2, 4)
    acs = []
    for i in range(nac):
        mode = "surf" if (k % len(PLACES) == 5 and i < 2) or rng.random() < 0.1 else "air"
        acs.append({"addr": rng.randrange(1, 1 << 24), "a": place[0] + rng.randrange(-4000, 4000), "o": wrap(place[1] + rng.randrange(-4000, 4000)),
                    "va": rng.randrange(-64, 65), "vo": rng.randrange(-64, 65), "mode": mode, "oe": rng.randrange(2), "since": -100})
    rx = [1, cprpy_rx(place[0]), cprpy_rx(place[1])] if rng.random() < 0.85 else [0, 0, 0]
    unknown = rng.randrange(1, 1 << 24)
    now = 2000 + rng.randrange(1000)
    script = []
    adsb, commb = [], []
    dts = [1, 1, 1, 2, 2, 5, 9, 19, 21, 40, 117, 119, 123, 125, 200, 359, 362, 500]
    quiet = None                  # an aircraft that keeps squittering but sends no position for a long stretch
    if k % 4 == 1:
        quiet = (rng.randrange(nac), rng.randint(3, 8), rng.randint(300, 3000))      # (who, from step, for how long)
        dts = [1, 2, 19, 21, 60, 90, 100, 110, 117]
    quiet_until = None
    for step in range(rng.randint(8, ctx.pick(30, 80))):
        dt = rng.choice(dts) if rng.random() < 0.8 else rng.choice([1, 2, 3])
        now += dt
        if quiet and step == quiet[1]:
            quiet_until = now + quiet[2]
        for c in acs:
            kdiv = 9 if c["mode"] == "surf" else 1
            c["a"] = max(-3728270, min(3728270, c["a"] + (c["va"] * dt) // kdiv))
            c["o"] = wrap(c["o"] + (c["vo"] * dt) // kdiv)
        for _ in range(rng.randint(1, 4)):
            c = rng.choice(acs)
            u = rng.random()
            if quiet_until is not None and c is acs[quiet[0]]:
                if now < quiet_until:
                    u = 0.6 + 0.1 * rng.random()          # other squitters only: stays listed, position goes stale
                else:
                    u = 0.0
            if u < 0.55:
                if rng.random() < 0.8:
                    c["oe"] = 1 - c["oe"]
                kind = "surf" if c["mode"] == "surf" else "air"
                if kind == "surf" and not rx[0]:
                    kind = "air"
                adsb.append({"f": pos_frame(rng, c["addr"], kind, c["a"], c["o"], c["oe"]), "t": now, "g": 1, "a": c["a"], "o": c["o"]})
            elif u < 0.75:
                tc = rng.choice([1, 2, 3, 4, 19, 19, 28, 29, 31, 0, 23, 24, 27, 30, 20, 21, 22])
                if tc == 19 and rng.random() < 0.5:
                    # a genuine ground-speed squitter (one in five without a vertical rate) instead of random TC19 content
                    adsb.append({"f": vel_frame(rng, c["addr"], c["va"], c["vo"], c["a"]), "t": now, "g": 0, "a": 0, "o": 0})
                else:
                    adsb.append({"f": es_frame(rng, c["addr"], tc, df=rng.choice([17, 17, 18])), "t": now, "g": 0, "a": 0, "o": 0})
            elif u < 0.93:
                commb.append({"f": commb_frame(rng, c["addr"], rng.choice(["bds50", "bds60", "rand", "zero", "bds60p", "bds50p", "bds60p"])), "t": now, "g": 0, "a": 0, "o": 0})
            else:
                commb.append({"f": commb_frame(rng, unknown, rng.choice(["bds50", "rand"])), "t": now, "g": 0, "a": 0, "o": 0})
        # take-off / landing near the receiver, holding a mode for more than 10 s
        c = rng.choice(acs)
        if rx[0] and now - c["since"] > 24 and rng.random() < 0.08 and abs(c["a"] - 16 * rx[1]) < 25000 and abs(wrap(c["o"] - 16 * rx[2])) < 25000:
            c["mode"] = "air" if c["mode"] == "surf" else "surf"
            c["since"] = now
        if (adsb or commb) and rng.random() < 0.45:
            now += rng.choice([0, 0, 1, 3])            # processing happens a little after the last message; the clock never runs backwards
            script.append({"tnow": now, "adsb": adsb, "commb": commb})
            adsb, commb = [], []
    if adsb or commb:
        script.append({"tnow": now, "adsb": adsb, "commb": commb})
    return {"fn": "tracker.run", "rx": rx, "script": script, "lower": rng.choice([0, 0, 1, 2])}


SCEN_RX = {1: (151440, 12810), 2: (30500, 0), 3: (0, 0), 4: (116500, 524280), 5: (230000, 6250), 6: (152200, 13880)}


def frame_for(rng, m):
    """concrete frame for an abstract TrackerSM message (fields come from the spec's own encoder)"""
    if m["cls"] == "commb":
        return commb_frame(rng, m["addr"], rng.choice(["bds50", "bds60", "rand", "zero"]))
    if m["cls"] == "ident":
        return es_frame(rng, m["addr"], rng.randint(1, 4))
    tc = rng.randint(9, 18) if m["cls"] == "air" else rng.randint(5, 8)
    f = [(17 << 3) | 5, m["addr"] >> 16, (m["addr"] >> 8) & 255, m["addr"] & 255] + [rng.randrange(256) for _ in range(7)] + [0, 0, 0]
    f = gen.set_bits(f, 33, 37, tc)
    if m["cls"] == "surf":
        f = gen.set_bits(f, 38, 44, rng.randint(1, 124))
        f = gen.set_bits(f, 45, 45, 1)
    f = gen.set_bits(f, 54, 54, m["oe"])
    f = gen.set_bits(f, 55, 71, m["yz"])
    f = gen.set_bits(f, 72, 88, m["xz"])
    return gen.with_parity(f[:11])


def simulated_histories(ctx):
    """Role B: behaviours chosen by TLC (-simulate over TrackerSM) turned into process_raw scripts with ground truth"""
    import glob
    import shutil
    from .. import tlaval
    rng = ctx.rng
    base = open(os.path.join(tlc.SPEC_DIR, "TrackerSM.cfg")).read().replace("CONSTRAINT Bounded\n", "")
    V = []
    nbeh = 0
    hist = {}
    for start in range(1, 7):
        d = os.path.join(ctx.tmp, "sim%d" % start)
        os.makedirs(d, exist_ok=True)
        r = tlc.run("TrackerSM", cfg_text=base.replace("Start = 1", "Start = %d" % start), workers=1,
                    simulate="file=%s/tr,num=%d" % (d, ctx.pick(40, 600)), depth=ctx.pick(40, 60), seed=ctx.seed * 7 + start, timeout=3000)
        tlc.require_ok(r, "TrackerSM simulation start %d" % start)
        ctx.states += r.generated
        ctx.transitions += r.generated
        ctx.tlc_runs.append({"module": "TrackerSM", "role": "B", "mode": "simulate", "generated": r.generated, "wall_s": round(r.wall, 2)})
        for fn in sorted(glob.glob(d + "/tr_*")):
            beh = tlaval.parse_sim(fn)
            nbeh += 1
            script = []
            seen_msgs = 0
            prev = None
            truth_at = {}
            for lab, st in beh:
                hist[lab.split("(")[0]] = hist.get(lab.split("(")[0], 0) + 1
                if prev is not None and lab.startswith("PosSquitter"):
                    m = st["pend"]["adsb"][-1]
                    ac = int(lab[lab.index("(") + 1:lab.index(",")])
                    c = st["air"][ac - 1]
                    truth_at[(m["addr"], m["t"], len(st["pend"]["adsb"]))] = (c["a"], c["o"])
                if prev is not None and lab == "Proc":
                    adsb = []
                    for k, m in enumerate(prev["pend"]["adsb"]):
                        tr = truth_at.get((m["addr"], m["t"], k + 1))
                        adsb.append({"f": frame_for(rng, m), "t": m["t"], "g": 1 if (m["cls"] in ("air", "surf") and tr) else 0,
                                     "a": tr[0] if tr else 0, "o": tr[1] if tr else 0})
                    commb = [{"f": frame_for(rng, m), "t": m["t"], "g": 0, "a": 0, "o": 0} for m in prev["pend"]["commb"]]
                    script.append({"tnow": prev["now"], "adsb": adsb, "commb": commb})
                    truth_at = {}
                prev = st
            if script:
                rx = SCEN_RX[start]
                V.append({"fn": "tracker.run", "rx": [1, rx[0], rx[1]], "script": script, "lower": rng.choice([0, 1, 2]), "origin": "tlc"})
        shutil.rmtree(d, ignore_errors=True)
    ctx.extra["tlc_simulated_behaviours_replayed"] = nbeh
    ctx.extra["tlc_simulated_action_histogram"] = hist        # vacuity guard: every action of TrackerSM is taken
    missing = [a for a in ("Tick", "PosSquitter", "OtherSquitter", "CommBReply", "SwitchMode", "Proc") if not hist.get(a)]
    if missing:
        raise tlc.MachineryError("vacuous simulation: actions never taken: %s" % missing)
    return V


def cprpy_rx(x):
    return (x + 8) // 16


def to_trace(ev):
    lines = []
    for e in ev:
        lines.append({"ev": "start", "run": e["id"], "id": e["id"] * 1000, "rx": e["rx"]})
        r = e["res"]
        steps = r["v"] if r["t"] == "steps" else []
        for k, call in enumerate(e["script"]):
            if k >= len(steps):
                break
            st = steps[k]
            lines.append({"ev": "proc", "run": e["id"], "id": e["id"] * 1000 + k + 1, "tnow": call["tnow"], "adsb": call["adsb"],
                          "commb": call["commb"], "post": st["post"], "exc": st["exc"], "dup": st["dup"]})
    return lines


def validate_runs(ctx, ev):
    from ..core import NCPU
    shards = [ev[k::NCPU] for k in range(NCPU)]
    byid = {e["id"]: e for e in ev}

    def one(k):
        part = shards[k]
        if not part:
            return None
        lines = to_trace(part)
        fn = os.path.join(ctx.tmp, "tk_%d.ndjson" % k)
        with open(fn, "w") as f:
            for x in lines:
                f.write(json.dumps(x, separators=(",", ":")) + "\n")
        r = tlc.run("Trace_Tracker", cfg="Trace_Tracker.cfg", workers=1, env={"TRACE_FILE": fn}, timeout=3000)
        os.unlink(fn)
        return r, len(lines)

    out = []
    with cf.ThreadPoolExecutor(max_workers=NCPU) as ex:
        for res in ex.map(one, range(NCPU)):
            if res is None:
                continue
            r, nlines = res
            if not r.ok:
                raise tlc.MachineryError("Trace_Tracker failed\n%s" % (r.error_text or r.out[-3000:]))
            done = [x for x in r.prints if x[0] == "DONE"]
            if not done or done[-1][1] != nlines or done[-1][2] - 1 != nlines:
                raise tlc.MachineryError("tracker trace not fully consumed %r vs %d" % (done, nlines))
            rej = [x for x in r.prints if x[0] == "REJECT"]
            if len(rej) != done[-1][3]:
                raise tlc.MachineryError("REJECT count mismatch")
            for x in rej:
                out.append((byid[x[1] // 1000], x[1] % 1000, x[2]))
            ctx.states += r.distinct
            ctx.transitions += r.generated
            ctx.validated += nlines - len(rej)
            if len(ctx.tlc_cmds) < 12:
                ctx.tlc_cmds.append("TRACE_FILE=<calls.ndjson> " + r.cmd)
            ctx.tlc_runs.append({"module": "Trace_Tracker", "role": "C", "events": nlines, "rejected": len(rej), "wall_s": round(r.wall, 2)})
    return out


def judge_runs(ctx, rejected):
    for e, step, why in rejected:
        if why.startswith("drift:"):
            ctx.drift += 1
            ctx.drift_kinds = getattr(ctx, "drift_kinds", {})
            ctx.drift_kinds[why] = ctx.drift_kinds.get(why, 0) + 1
            ctx.validated += 1
            continue
        if why.startswith("oracle:"):
            raise tlc.MachineryError("spec self-check failed: %s (run %s step %s)" % (why, e["id"], step))
        small = {"fn": "tracker.run", "id": e["id"], "step": step, "rx": e["rx"], "lower": e["lower"],
                 "script": e["script"][:step], "res": {"t": "steps", "v": e["res"].get("v", [])[max(0, step - 1):step]}}
        ctx.violation(why, small)


# ---------------------------------------------------------------------------------------------------------------------
# The decoder process loop (Decode.run) - the C17 anchor "decode loop keeps its batch on exception".  Not part of the
# property's own statement: every deviation found here is reported as MODEL-DRIFT, never as a violation.
LOOP_CONFIGS = [(), (1,), (2,), (3,), (2, 4)]


def _loop_cfg(nb, poison, maxexc, temporal):
    inv = ["TypeOK", "ExactlyOnceInOrder", "NoLoss", "PublishAfterProcessing", "PublishComplete"]
    props = ["PublishMonotone", "StuckAfterPoison", "PoisonSticks"] + (["AllProcessed", "AllPublished"] if temporal and not poison else [])
    return ("SPECIFICATION %s\nCONSTANTS\n  NB = %d\n  Poison = {%s}\n  MaxExc = %d\n" % (
        "FairSpec" if temporal else "Spec", nb, ", ".join(map(str, poison)), maxexc)
        + "".join("INVARIANT %s\n" % i for i in inv) + ("".join("PROPERTY %s\n" % q for q in props) if temporal else "")
        + "CHECK_DEADLOCK FALSE\n")


def _parse_dot(path):
    """TLC `-dump dot,actionlabels`: returns (initial node, {node: [(action, node)]})"""
    import re
    edges, init = {}, None
    re_e = re.compile(r'^(-?\d+) -> (-?\d+) \[label="(\w+)"')
    re_n = re.compile(r'^(-?\d+) \[label=.*style = filled\]')
    for line in open(path):
        m = re_e.match(line)
        if m:
            edges.setdefault(m.group(1), []).append((m.group(3), m.group(2)))
            continue
        m = re_n.match(line)
        if m and init is None:
            init = m.group(1)
    return init, edges


def _edge_cover(init, edges, rng, extra_steps):
    """one schedule per transition of the state graph: shortest path to its source, the transition, a short random continuation"""
    from collections import deque
    par = {init: None}
    dq = deque([init])
    while dq:
        u = dq.popleft()
        for a, w in edges.get(u, []):
            if w not in par:
                par[w] = (u, a)
                dq.append(w)
    scheds = []
    for u in sorted(edges):
        if u not in par:
            continue
        pre = []
        x = u
        while par[x] is not None:
            x, a = par[x][0], par[x][1]
            pre.append(a)
        pre.reverse()
        for a, w in edges[u]:
            sched = pre + [a]
            x = w
            for _ in range(extra_steps):
                nxt = edges.get(x)
                if not nxt:
                    break
                b, x = nxt[rng.randrange(len(nxt))]
                sched.append(b)
            scheds.append(sched)
    return scheds


def tlaps(ctx, files, main):
    """re-run a TLAPS proof in a scratch copy; returns the number of obligations proved (machinery failure otherwise)"""
    import re
    import shutil
    import subprocess
    pd = os.path.join(ctx.tmp, "tlaps_" + main)
    os.makedirs(pd, exist_ok=True)
    for f in files:
        shutil.copy(os.path.join(tlc.SPEC_DIR, f), pd)
    exe = shutil.which("tlapm") or next((x for x in ("/usr/local/bin/tlapm", "/opt/veriftools/tlapm/bin/tlapm", "/opt/veriftools/tlapm/tlapm")
                                         if os.path.exists(x)), None)
    if exe is None:
        # the proof system is not installed here: the proof is not re-run (the bounded TLC checks of the same statement are)
        shutil.rmtree(pd, ignore_errors=True)
        ctx.notes.append("tlapm not found: TLAPS proof %s not re-run" % main)
        return 0
    try:
        p = subprocess.run([exe, main + ".tla"], cwd=pd, stdout=subprocess.PIPE, stderr=subprocess.STDOUT, text=True, timeout=1800)
        out = p.stdout
    except subprocess.TimeoutExpired as ex:
        out = "tlapm timed out: %s" % ex
    shutil.rmtree(pd, ignore_errors=True)
    m = re.search(r"All (\d+) obligations proved", out)
    if not m:
        raise tlc.MachineryError("TLAPS proof %s did not go through:\n%s" % (main, out[-1500:]))
    return int(m.group(1))


def decode_loop(ctx):
    import glob
    import shutil
    from .. import tlaval
    nb = ctx.pick(4, 6)
    # A: every interleaving of the source's sends with the loop's steps; safety + liveness under weak fairness
    ctx.model_check("DecodeLoopMC", cfg_text=_loop_cfg(ctx.pick(5, 7), (), 0, True), what="decoder loop, no raising batch", timeout=3000)
    for poison in LOOP_CONFIGS[1:]:
        ctx.model_check("DecodeLoopMC", cfg_text=_loop_cfg(nb, poison, 3, True), what="decoder loop, raising batch %r" % (poison,), timeout=3000)
    # the hazard is real in the model: with a raising batch, earlier batches are processed again (expected counterexample)
    r = tlc.run("DecodeLoopMC", cfg_text=_loop_cfg(4, (2,), 3, False).replace("INVARIANT ExactlyOnceInOrder", "INVARIANT OnceEach"), workers=1, timeout=600)
    if r.invariant_violated != "OnceEach":
        raise tlc.MachineryError("DecodeLoop: the re-processing hazard is not reachable in the model (vacuous poison configuration)\n" + r.out[-1500:])
    ctx.extra["decode_loop_hazard_reprocessing_reachable_in_model"] = True
    if not ctx.quick:
        # unbounded: the TLAPS proof of PublishAfterProcessing + type invariant for any NB / Poison (spec/DecodeLoopProofs.tla)
        ctx.extra["decode_loop_tlaps_obligations_proved"] = tlaps(ctx, ("DecodeLoop.tla", "DecodeLoopProofs.tla"), "DecodeLoopProofs")
    # B: one schedule per transition of the complete state graph + behaviours simulated by TLC, stepped through the real Decode.run
    V = []
    nsched = {"edge_cover": 0, "simulated": 0}
    hist, asked = {}, {}
    for ci, poison in enumerate(LOOP_CONFIGS):
        d = os.path.join(ctx.tmp, "loop%d" % ci)
        os.makedirs(d, exist_ok=True)
        dot = os.path.join(d, "g.dot")
        r = tlc.run("DecodeLoopMC", cfg_text=_loop_cfg(nb, poison, 2, False), workers=1, timeout=1200, extra=["-dump", "dot,actionlabels", dot])
        tlc.require_ok(r, "DecodeLoop state graph %r" % (poison,))
        ctx.tlc_runs.append({"module": "DecodeLoopMC", "role": "B", "mode": "state graph", "distinct": r.distinct, "wall_s": round(r.wall, 2)})
        init, edges = _parse_dot(dot)
        nedges = sum(len(x) for x in edges.values())
        if init is None or nedges < 50:
            raise tlc.MachineryError("DecodeLoop state graph not parsed (%s edges)" % nedges)
        for sched in _edge_cover(init, edges, ctx.rng, ctx.pick(4, 10)):
            V.append({"fn": "decodeloop.run", "sched": sched, "poison": list(poison), "cfg": ci, "origin": "edge"})
            nsched["edge_cover"] += 1
        r = tlc.run("DecodeLoopMC", cfg_text=_loop_cfg(nb, poison, 4, False), workers=1, timeout=1200,
                    simulate="file=%s/tr,num=%d" % (d, ctx.pick(40, 400)), depth=ctx.pick(40, 80), seed=ctx.seed * 11 + ci)
        tlc.require_ok(r, "DecodeLoop simulation %r" % (poison,))
        ctx.tlc_runs.append({"module": "DecodeLoopMC", "role": "B", "mode": "simulate", "generated": r.generated, "wall_s": round(r.wall, 2)})
        for fn in sorted(glob.glob(d + "/tr_*")):
            beh = tlaval.parse_sim(fn)
            sched = [lab.split("(")[0] for lab, _ in beh[1:]]
            exp = [{k: st[k] for k in ("sent", "pipe", "calls", "pubs", "excs")} for _, st in beh[1:]]
            if sched:
                V.append({"fn": "decodeloop.run", "sched": sched, "poison": list(poison), "cfg": ci, "origin": "sim", "exp": exp})
                nsched["simulated"] += 1
        shutil.rmtree(d, ignore_errors=True)
    ev = ctx.replay(V)
    bad_b = set()
    lines = {ci: [] for ci in range(len(LOOP_CONFIGS))}
    nact = 0
    for e in ev:
        if e["res"].get("t") != "loop":          # the harness call itself failed (exception, time limit, purity)
            bad_b.add(e["id"])
            continue
        got = e["res"]["v"]
        for x in got:
            hist[x["a"]] = hist.get(x["a"], 0) + 1
        for a in e["sched"]:
            asked[a] = asked.get(a, 0) + 1
        if e["res"].get("used") != len(e["sched"]) or any(x["a"] == "DIVERGED" or x.get("ok") == 0 for x in got):
            bad_b.add(e["id"])
        if "exp" in e:                   # abstract state after every action against the behaviour TLC wrote
            for x, want in zip(got, e["exp"]):
                if any(x.get(k) != want[k] for k in want):
                    bad_b.add(e["id"])
                    break
            if len(got) != len(e["exp"]):
                bad_b.add(e["id"])
        L = lines[e["cfg"]]
        L.append({"ev": "start", "run": e["id"], "id": e["id"] * 1000})
        for k, x in enumerate(got):
            L.append({"ev": "act", "run": e["id"], "id": e["id"] * 1000 + k + 1, "a": x["a"], "sent": x["sent"], "pipe": x["pipe"],
                      "calls": x["calls"], "pubs": x["pubs"], "excs": x["excs"]})
            nact += 1
    missing = [a for a in ("Send", "Poll", "Recv", "ProcOk", "ProcRaise", "ProcDone", "Publish") if not asked.get(a)]
    if missing:
        raise tlc.MachineryError("decoder loop: actions never scheduled: %s" % missing)
    # C: TLC validates every recorded step against the DecodeLoop actions (one run per Poison configuration)
    bad_c = {}
    base = open(os.path.join(tlc.SPEC_DIR, "Trace_DecodeLoop.cfg")).read()

    def one(ci):
        L = lines[ci]
        if not L:
            return None
        fn = os.path.join(ctx.tmp, "loop_%d.ndjson" % ci)
        with open(fn, "w") as f:
            for x in L:
                f.write(json.dumps(x, separators=(",", ":")) + "\n")
        cfg = base.replace("NB = 6", "NB = %d" % nb).replace("Poison = {}", "Poison = {%s}" % ", ".join(map(str, LOOP_CONFIGS[ci])))
        r = tlc.run("Trace_DecodeLoop", cfg_text=cfg, workers=1, env={"TRACE_FILE": fn}, timeout=3000)
        os.unlink(fn)
        return r, len(L)

    with cf.ThreadPoolExecutor(max_workers=len(LOOP_CONFIGS)) as ex:
        for res in ex.map(one, range(len(LOOP_CONFIGS))):
            if res is None:
                continue
            r, n = res
            if not r.ok:
                raise tlc.MachineryError("Trace_DecodeLoop failed\n%s" % (r.error_text or r.out[-3000:]))
            done = [x for x in r.prints if x[0] == "DONE"]
            if not done or done[-1][1] != n or done[-1][2] - 1 != n:
                raise tlc.MachineryError("decoder-loop trace not fully consumed %r vs %d" % (done, n))
            rej = [x for x in r.prints if x[0] == "REJECT"]
            if len(rej) != done[-1][3]:
                raise tlc.MachineryError("REJECT count mismatch (decoder loop)")
            for x in rej:
                bad_c.setdefault(x[1] // 1000, x[2])
            ctx.states += r.distinct
            ctx.transitions += r.generated
            ctx.tlc_runs.append({"module": "Trace_DecodeLoop", "role": "C", "events": n, "rejected": len(rej), "wall_s": round(r.wall, 2)})
    # the two verdicts (state comparison in the harness, trace validation by TLC) must name the same runs
    only_b = bad_b - set(bad_c)
    if only_b:
        for i in sorted(only_b):
            bad_c[i] = "loop_schedule_not_followed"
    ctx.validated += nact
    ctx.drift_kinds = getattr(ctx, "drift_kinds", {})
    for i, why in bad_c.items():
        ctx.drift += 1
        k = "drift:decode_" + why
        ctx.drift_kinds[k] = ctx.drift_kinds.get(k, 0) + 1
    ctx.extra["decode_loop"] = {"schedules": nsched, "steps_validated": nact, "action_histogram": hist, "runs_deviating": len(bad_c),
                                "poison_configurations": [list(p) for p in LOOP_CONFIGS], "batches": nb}


# ---------------------------------------------------------------------------------------------------------------------
# The viewer (streamer/screen.py): cursor / paging / lock state machine and what update() draws.  Outside the listed
# properties: deviations are MODEL-DRIFT; what TLC establishes about the design is recorded as an observation.
def _screen_cfg(h, ids, fixed, tables="{}", probe=1, extra=""):
    return ("SPECIFICATION Spec\nCONSTANTS\n  H = %d\n  Ids = {%s}\n  FixedTable = %s\n  Probe = %d\n  Tables = %s\n"
            "INVARIANT TypeOK\nINVARIANT ShownSlice\nINVARIANT OffsetInTable\nPROPERTY LockHighlight\nCHECK_DEADLOCK FALSE\n" % (
                h, ", ".join(map(str, ids)), "TRUE" if fixed else "FALSE", probe, tables)) + extra


SCREEN_TABLES = "{{}, {1,2}, {1,2,3,4,5,6,7}, {1,2,3,4,5,6,7,8,9,10}, {2,3,4,5,6,7,8,9,10,11,12}, {1,2,3,4,5,6,7,8,9,10,11,12}, {2,3,4,5,6,7,8,9,10,11,12,13,14}, {1,2,3,4,5,6,7,8,9,10,11,12,13,14}}"


def viewer(ctx):
    import glob
    import shutil
    from .. import tlaval
    ids14 = list(range(1, 15))
    # 11 / 12 aircraft bracket the PgDn condition (offset + 6 < len - 5) for a 10-line screen
    configs = [("fixed10", 10, ids14, True, "{}"), ("fixed10_11", 10, ids14[:11], True, "{}"), ("fixed10_12", 10, ids14[:12], True, "{}"),
               ("dyn10", 10, ids14, False, SCREEN_TABLES), ("fixed24", 24, list(range(1, 31)), True, "{}") if not ctx.quick else ("fixed16", 16, list(range(1, 23)), True, "{}")]
    # A: the state machine itself
    for name, h, ids, fixed, tables in configs:
        ctx.model_check("ScreenSM", cfg_text=_screen_cfg(h, ids, fixed, tables), what="viewer %s" % name, timeout=3000)
    # A, analysis: which aircraft can no sequence of keys bring onto the screen?  NeverShownProbe holds exactly for those.
    h, n = 10, 14
    hidden = []
    for i in ids14:
        r = tlc.run("ScreenSM", cfg_text=_screen_cfg(h, ids14, True, "{}", probe=i, extra="INVARIANT NeverShownProbe\n"), workers=1, timeout=600)
        if r.invariant_violated == "NeverShownProbe":
            continue
        tlc.require_ok(r, "viewer paging probe %d" % i)
        hidden.append(i)
        ctx.states += r.distinct
    page, o, seen = h - 4, 0, set()
    while True:
        seen |= set(range(o + 1, min(n, o + h - 6) + 1))
        if o + page + 5 < n:
            o += page
        else:
            break
    if hidden != [i for i in ids14 if i not in seen] or not hidden or len(hidden) == len(ids14):
        raise tlc.MachineryError("viewer paging analysis: TLC says %r, the closed form says %r" % (hidden, [i for i in ids14 if i not in seen]))
    r = tlc.run("ScreenSM", cfg_text=_screen_cfg(10, ids14, False, SCREEN_TABLES, extra="INVARIANT ShowsSomething\n"), workers=4, timeout=600)
    if r.invariant_violated != "ShowsSomething":
        raise tlc.MachineryError("viewer: the stale-offset counterexample is not reachable\n" + r.out[-1200:])
    ctx.extra["viewer_design_observations"] = {
        "aircraft_no_key_sequence_can_display (H=10 lines, 14 aircraft, sorted positions)": hidden,
        "why": "a page shows H-6 rows but PgDn advances by H-4 and refuses to move unless offset+H-4 < len-5",
        "stale_offset_blank_screen_reachable": True}
    # B: behaviours simulated by TLC (+ one schedule per sampled transition of the fixed-table graph) on the real Screen
    V = []
    asked = {}
    for ci, (name, h, ids, fixed, tables) in enumerate(configs):
        d = os.path.join(ctx.tmp, "scr%d" % ci)
        os.makedirs(d, exist_ok=True)
        r = tlc.run("ScreenSM", cfg_text=_screen_cfg(h, ids, fixed, tables), workers=1, timeout=1200,
                    simulate="file=%s/tr,num=%d" % (d, ctx.pick(60, 500)), depth=ctx.pick(50, 120), seed=ctx.seed * 13 + ci)
        tlc.require_ok(r, "viewer simulation %s" % name)
        ctx.tlc_runs.append({"module": "ScreenSM", "role": "B", "mode": "simulate", "wall_s": round(r.wall, 2)})
        for fn in sorted(glob.glob(d + "/tr_*")):
            beh = tlaval.parse_sim(fn)
            steps, exp = [], []
            for lab, st in beh[1:]:
                a = lab.split("(")[0]
                asked[a] = asked.get(a, 0) + 1
                step = {"a": a}
                if a == "Table":
                    step["acs"] = sorted(st["acs"][1])
                steps.append(step)
                rows = sorted(st["shown"])
                exp.append({"y": st["y"], "offset": st["offset"], "lock": st["lock"], "shown": [st["shown"][r] for r in rows],
                            "hl": [st["hl"][r] for r in rows]})
            if steps:
                V.append({"fn": "screen.run", "H": h, "steps": steps, "exp": exp, "cfg": ci, "init": ids if fixed else []})
        if fixed and h == 10:
            dot = os.path.join(d, "g.dot")
            r = tlc.run("ScreenSM", cfg_text=_screen_cfg(h, ids, fixed, tables), workers=1, timeout=1200, extra=["-dump", "dot,actionlabels", dot])
            tlc.require_ok(r, "viewer state graph")
            init, edges = _parse_dot(dot)
            scheds = _edge_cover(init, edges, ctx.rng, 3)
            ctx.rng.shuffle(scheds)
            for sched in scheds[:ctx.pick(600, 6000)]:
                V.append({"fn": "screen.run", "H": h, "steps": [{"a": a} for a in sched], "cfg": ci, "init": ids})
        shutil.rmtree(d, ignore_errors=True)
    missing = [a for a in ("Home", "Down", "Up", "NPage", "PPage", "Enter", "Esc", "Table", "Render") if not asked.get(a)]
    if missing:
        raise tlc.MachineryError("viewer: actions never scheduled: %s" % missing)
    ev = ctx.replay(V)
    bad_b, lines, nact = set(), {ci: [] for ci in range(len(configs))}, 0
    for e in ev:
        if e["res"].get("t") != "screen":
            bad_b.add(e["id"])
            continue
        got = e["res"]["v"]
        if len(got) != len(e["steps"]) or e["res"].get("err"):
            bad_b.add(e["id"])
        if "exp" in e:
            for x, want in zip(got, e["exp"]):
                if any(x.get(k) != want[k] for k in want):
                    bad_b.add(e["id"])
                    break
        L = lines[e["cfg"]]
        L.append({"ev": "start", "run": e["id"], "id": e["id"] * 1000})
        for k, (x, stp) in enumerate(zip(got, e["steps"])):
            L.append({"ev": "act", "run": e["id"], "id": e["id"] * 1000 + k + 1, "a": x["a"], "acs": stp.get("acs", []), "y": x["y"],
                      "offset": x["offset"], "lock": x["lock"], "shown": x["shown"], "hl": x["hl"]})
            nact += 1
    # C: TLC validates every recorded step against the ScreenSM actions
    bad_c = {}

    def one(ci):
        L = lines[ci]
        if not L:
            return None
        name, h, ids, fixed, tables = configs[ci]
        fn = os.path.join(ctx.tmp, "scr_%d.ndjson" % ci)
        with open(fn, "w") as f:
            for x in L:
                f.write(json.dumps(x, separators=(",", ":")) + "\n")
        cfg = ("INIT TInit\nNEXT TNext\nPOSTCONDITION TDone\nCHECK_DEADLOCK FALSE\nCONSTANTS\n  H = %d\n  Ids = {%s}\n  FixedTable = %s\n"
               "  Probe = 1\n  Tables = {}\n" % (h, ", ".join(map(str, ids)), "TRUE" if fixed else "FALSE"))
        r = tlc.run("Trace_Screen", cfg_text=cfg, workers=1, env={"TRACE_FILE": fn}, timeout=3000)
        os.unlink(fn)
        return r, len(L)

    with cf.ThreadPoolExecutor(max_workers=len(configs)) as ex:
        for res in ex.map(one, range(len(configs))):
            if res is None:
                continue
            r, n = res
            if not r.ok:
                raise tlc.MachineryError("Trace_Screen failed\n%s" % (r.error_text or r.out[-3000:]))
            done = [x for x in r.prints if x[0] == "DONE"]
            if not done or done[-1][1] != n or done[-1][2] - 1 != n:
                raise tlc.MachineryError("viewer trace not fully consumed %r vs %d" % (done, n))
            rej = [x for x in r.prints if x[0] == "REJECT"]
            if len(rej) != done[-1][3]:
                raise tlc.MachineryError("REJECT count mismatch (viewer)")
            for x in rej:
                bad_c.setdefault(x[1] // 1000, x[2])
            ctx.states += r.distinct
            ctx.transitions += r.generated
            ctx.tlc_runs.append({"module": "Trace_Screen", "role": "C", "events": n, "rejected": len(rej), "wall_s": round(r.wall, 2)})
    for i in sorted(bad_b - set(bad_c)):
        bad_c[i] = "screen_state_differs_from_simulated_behaviour"
    ctx.validated += nact
    ctx.drift_kinds = getattr(ctx, "drift_kinds", {})
    for i, why in bad_c.items():
        ctx.drift += 1
        ctx.drift_kinds["drift:viewer_" + why] = ctx.drift_kinds.get("drift:viewer_" + why, 0) + 1
    ctx.extra["viewer"] = {"runs": len(ev), "steps_validated": nact, "actions_scheduled": asked, "runs_deviating": len(bad_c)}


def run(ctx):
    ctx.rule = ("model: all interleavings of {tick 0.5/9.5/10.5/61.5/181 s, position squitter (either parity), other squitter, "
                "Comm-B reply (known / unknown address), take-off/landing, process} for 2 aircraft from 6 start places to depth 6/7; "
                "code: seeded random histories of 8-30 (thorough 80) steps with 2-4 aircraft, batches spanning 0.5-250 s, hex case "
                "upper/lower/mixed; distinct = distinct (history, call) pairs.  Beyond the property (drift only): the decoder process "
                "loop (DecodeLoop: one schedule per transition of its state graph + simulated schedules through the real Decode.run) and "
                "the viewer (ScreenSM: simulated key / table / update sequences on the real Screen)")
    ctx.assumptions += ["trajectories within +-80 deg latitude, surface speed <= 70 kt (1/9 of the airborne velocity), landing only "
                        "within ~30 NM of the receiver, a mode (surface/airborne) is held > 10 s; timestamps are multiples of 0.5 s"]
    base = open(os.path.join(tlc.SPEC_DIR, "TrackerSM.cfg")).read()
    starts = range(1, 7)
    lvl = ctx.pick(6, 7)
    if ctx.quick:
        starts = [1 + (ctx.seed % 6), 1 + ((ctx.seed + 2) % 6), 3]
    for s in sorted(set(starts)):
        ctx.model_check("TrackerSM", cfg_text=base.replace("Start = 1", "Start = %d" % s).replace("MaxLevel = 6", "MaxLevel = %d" % lvl),
                        what="C17 tracker design, start %d" % s, timeout=6000)
    # the staleness bound for ALL time stamps on the half-second grid (TLAPS, over the definitions Tracker is built on; < 1 s)
    ctx.extra["staleness_bound_tlaps_obligations_proved"] = tlaps(ctx, ("TrackerTime.tla", "TrackerProofs.tla"), "TrackerProofs")
    V = [history(ctx, ctx.rng, k) for k in range(ctx.pick(600, 12000))]
    V += simulated_histories(ctx)
    ev = ctx.replay(V)
    ncalls = 0
    for e in ev:
        n = len(e["res"].get("v", []))
        ncalls += n
        for k in range(n):
            ctx.distinct.add((e["id"], k))
    ctx.evaluations += ncalls - len(ev)
    e0 = ev[0]
    ctx.samples.append({"rx": e0["rx"], "lower": e0["lower"], "first_call": e0["script"][0], "table_after": e0["res"]["v"][0] if e0["res"].get("v") else None})
    judge_runs(ctx, validate_runs(ctx, ev))
    decode_loop(ctx)
    viewer(ctx)


def replay(ctx, path):
    with open(path) as f:
        cases = json.load(f)["cases"]
    V = [{"fn": "tracker.run", "rx": c["event"]["rx"], "script": c["event"]["script"], "lower": c["event"]["lower"]} for c in cases]
    ev = ctx.replay(V)
    judge_runs(ctx, validate_runs(ctx, ev))
