--------------------------------- MODULE Demod ------------------------------
(* The software demodulator (extra/rtlreader.py): pulse-position modulation  *)
(* at 2 samples per microsecond behind the 8 us preamble.  Amplitudes are    *)
(* integers (x 1000).  Modulator (what the transponder + receiver front end  *)
(* deliver) and the reference buffer processor.                              *)
EXTENDS Frame, FiniteSets

PreamblePos == {1, 3, 8, 10}             \* pulses at samples 0, 2, 7, 9 (1-based: 1, 3, 8, 10) of the 16 preamble samples

\* samples of one frame (bytes f) at amplitude amp; `low(k)` is the level of the k-th non-pulse sample (noise)
ModFrame(f, amp, low(_)) ==
  LET bits == BitsOf(f)
      pre == [k \in 1..16 |-> IF k \in PreamblePos THEN amp ELSE low(k)]
      body == [k \in 1..(2 * Len(bits)) |->
                 LET b == bits[(k + 1) \div 2] IN
                 IF (k % 2 = 1 /\ b = 1) \/ (k % 2 = 0 /\ b = 0) THEN amp ELSE low(16 + k)]
  IN  pre \o body

(* ---------------- the reference buffer processor ---------------- *)
\* noise floor: the smallest mean over consecutive 200-sample windows, as the exact rational <<sum, 200>>
WindowSums(sig) == [w \in 1..(Len(sig) \div 200) |->
                      LET RECURSIVE S(_, _) S(k, acc) == IF k > 200 * w THEN acc ELSE LET nx == acc + sig[k] IN S(k + 1, nx)
                      IN  S(200 * (w - 1) + 1, 0)]
MinSum(sig) == LET ws == WindowSums(sig) IN
               ws[CHOOSE w \in 1..Len(ws) : \A v \in 1..Len(ws) : ws[w] <= ws[v]]
\* sample >= 3.162 * floor  (10 dB above the noise floor):  s * 200 * 1000 >= 3162 * sum
Loud(s, msum) == s * 200000 >= 3162 * msum

\* the four preamble pulses must be of comparable height (the weakest at least half the strongest): a real pulse next to
\* noise that merely reaches the template's absolute tolerance is not a preamble
IsPreamble(sig, i) ==
  /\ i + 15 <= Len(sig)
  /\ \A k \in 1..16 : IF k \in PreamblePos THEN sig[i + k - 1] >= 200 /\ sig[i + k - 1] <= 1800
                      ELSE sig[i + k - 1] <= 800
  /\ LET ones == {sig[i + k - 1] : k \in PreamblePos}
         mx == CHOOSE x \in ones : \A y \in ones : y <= x
         mn == CHOOSE x \in ones : \A y \in ones : y >= x
     IN  2 * mn >= mx

\* admission of a demodulated bit string
CheckMsg(bits) ==
  LET n == Len(bits) IN
  IF n \notin {56, 112} THEN FALSE
  ELSE LET f == BytesOf(bits)  d == DF(f) IN
       IF d = 17 /\ n = 112 THEN ByteRem(f) = 0
       ELSE IF d \in {20, 21} /\ n = 112 THEN TRUE
       ELSE d \in {4, 5, 11} /\ n = 56

\* slice the bits that follow a preamble at i.  stopAtLength: stop at the 56 / 112 bits implied by the first bit
\* (reference behaviour); otherwise only at a quiet pair (both samples below 0.2 * max of the 226-sample window).
SliceBits(sig, i, stopAtLength) ==
  LET s == i + 16
      e == Min(Len(sig), s + 225)
      mx == LET RECURSIVE M(_, _) M(k, acc) == IF k > e THEN acc ELSE LET nx == Max(acc, sig[k]) IN M(k + 1, nx) IN M(s, 0)
      RECURSIVE Go(_, _)
      Go(k, acc) ==      \* k: 0-based pair index
        IF k > 112 THEN <<acc, 112>> ELSE IF s + 2 * k + 1 > Len(sig) THEN <<acc, k>>
        ELSE LET p0 == sig[s + 2 * k]  p1 == sig[s + 2 * k + 1] IN
             IF 5 * p0 < mx /\ 5 * p1 < mx THEN <<acc, k>>
             ELSE LET nb == Append(acc, IF p0 >= p1 THEN 1 ELSE 0) IN
                  IF stopAtLength /\ Len(nb) = (IF nb[1] = 1 THEN 112 ELSE 56) THEN <<nb, k>>
                  ELSE Go(k + 1, nb)
  IN  Go(0, <<>>)

\* the whole buffer: returns the sequence of admitted frames (as byte sequences)
DemodAll(sig, stopAtLength) ==
  LET n == Len(sig)
      msum == MinSum(sig)
      louds == SelectSeq([k \in 1..n |-> k], LAMBDA k : Loud(sig[k], msum))     \* indices at least 10 dB above the floor
      nl == Len(louds)
      RECURSIVE Run(_, _, _)
      Run(q, i, out) ==      \* q: next position in louds; i: first sample index not yet consumed
        IF q > nl THEN out
        ELSE LET c == louds[q] IN
             IF c < i THEN Run(q + 1, i, out)
             ELSE IF IsPreamble(sig, c) THEN
                       LET r == SliceBits(sig, c, stopAtLength)
                           ni == c + 16 + 2 * r[2]
                           no == IF Len(r[1]) > 0 /\ CheckMsg(r[1]) THEN Append(out, BytesOf(r[1])) ELSE out
                       IN  Run(q + 1, Max(ni, c + 1), no)
                  ELSE Run(q + 1, c + 1, out)
  IN  Run(1, 1, <<>>)
=============================================================================
