-------------------------------- MODULE Trace -------------------------------
(* Role C: validates events recorded from the implementation (stateless      *)
(* decoders).  One TLC state per event; verdicts are total: a rejected event *)
(* is printed (REJECT, id, failing clause) and the run continues.            *)
EXTENDS TV_Core, TLC, Json, IOUtils

Events == ndJsonDeserialize(IOEnv.TRACE_FILE)

VARIABLES l, nbad, canon

Verdict(e) ==
  CASE e.fn = "crc" -> V_crc(e)
    [] e.fn = "crc_legacy" -> V_crc(e)
    [] e.fn = "icao" -> V_icao_rel(e, canon)
    [] e.fn = "adsb.icao" -> V_icao_rel(e, canon)
    [] e.fn = "allcall.icao" -> V_allcall_icao(e)
    [] OTHER -> "unknown_fn"

Init == l = 1 /\ nbad = 0 /\ canon = <<>> /\ TLCSet(1, 0)

Next ==
  /\ l <= Len(Events)
  /\ LET e == Events[l]
         v == Verdict(e)
     IN  /\ (IF v = "ok" THEN TRUE ELSE PrintT(<<"REJECT", e.id, v>>) /\ TLCSet(1, TLCGet(1) + 1))
         /\ nbad' = IF v = "ok" THEN nbad ELSE nbad + 1
  /\ l' = l + 1
  /\ canon' = IF Events[l].fn \in {"icao", "adsb.icao"} THEN CanonNext(Events[l], canon) ELSE canon

\* acceptance: every line consumed (diameter - 1 = number of events)
Done == PrintT(<<"DONE", Len(Events), TLCGet("stats").diameter, TLCGet(1)>>)
=============================================================================
