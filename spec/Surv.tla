--------------------------------- MODULE Surv -------------------------------
(* Surveillance / all-call reply fields (Annex 10 vol IV 3.1.2).             *)
(*  DF4/5/20/21: FS 6-8, DR 9-13, UM = IIS 14-17 + IDS 18-19, AC/ID 20-32    *)
(*  DF0/16: AC 20-32.   DF11: CA 6-8, AA 9-32, PI = parity XOR (CL*16+IC)    *)
EXTENDS Frame, AltId

FS(f)  == Field(f, 6, 8)
DR(f)  == Field(f, 9, 13)
IIS(f) == Field(f, 14, 17)
IDS(f) == Field(f, 18, 19)
AC13(f) == Field(f, 20, 32)
ID13(f) == Field(f, 20, 32)
CA(f)  == Field(f, 6, 8)

DecText(n) == IF n < 10 THEN <<48 + n>>
              ELSE IF n < 100 THEN <<48 + (n \div 10), 48 + (n % 10)>>
              ELSE <<48 + (n \div 100), 48 + ((n \div 10) % 10), 48 + (n % 10)>>

\* interrogator code from the DF11 parity overlay ov = CL*16 + IC  (II0..15, SI1..63)
\* text: "II<n>" / "SI<n>" / "corrupt IC"
ICText(ov) ==
  IF ov > 79 THEN <<99, 111, 114, 114, 117, 112, 116, 32, 73, 67>>
  ELSE IF ov < 16 THEN <<73, 73>> \o DecText(ov)
  ELSE <<83, 73>> \o DecText(ov - 16)

\* a DF11 reply as the transponder builds it
BuildDF11(ca, addr, ov) ==
  BuildPI(<<11 * 8 + ca, addr \div 65536, (addr \div 256) % 256, addr % 256>>, ov)
=============================================================================
