#!/venv/bin/python
"""Which lines / branches of the library do the quick checks reach?  (analysis aid, not a check)

  tools/covreport.py [C07 C12 ...]      default: all 20 quick checks, role A skipped is NOT possible here (runs on /repo)

Runs each check with VERIF_COVERAGE=<dir> (the replay workers then record line + branch coverage of src/pyModeS), combines
the data and prints per file the statements never executed.  Output: mutation/coverage.txt"""
import os
import shutil
import subprocess
import sys
import tempfile

VERIF = os.path.dirname(os.path.dirname(os.path.abspath(__file__)))


def main():
    pids = sys.argv[1:] or ["C%02d" % k for k in range(1, 21)]
    d = tempfile.mkdtemp(prefix="verif_cov_")
    env = dict(os.environ, VERIF_COVERAGE=d, VERIF_REPO="/repo", VERIF_SKIP_A="1")
    for p in pids:
        r = subprocess.run(["/venv/bin/python", os.path.join(VERIF, "check"), p], env=env, stdout=subprocess.PIPE, stderr=subprocess.STDOUT, text=True)
        print(p, "exit", r.returncode, r.stdout.strip().splitlines()[-1][:160], flush=True)
    import coverage
    cov = coverage.Coverage(data_file=os.path.join(d, "cov"), branch=True)
    cov.combine([d])
    out = os.path.join(VERIF, "mutation", "coverage.txt")
    os.makedirs(os.path.dirname(out), exist_ok=True)
    with open(out, "w") as f:
        f.write("checks: %s\n" % " ".join(pids))
        cov.report(file=f, show_missing=True, skip_empty=True, ignore_errors=True, omit=["*transliterated*"])
    print(open(out).read())
    shutil.rmtree(d, ignore_errors=True)


if __name__ == "__main__":
    main()
