"""Signature predicates for known findings (see known_findings.json).  Each accepts only the narrow failing class it names."""
from .findings import sig


def _is_subseq(small, big):
    it = iter(big)
    return all(any(x == y for y in it) for x in small)


@sig("c19_false_preamble_in_strong_noise")
def c19_spurious(case, clause):
    """_process_buffer returns every modulated frame, in order, plus extra SHORT frames of a format without checksum
    (DF4/5/11) sliced out of noise, in a buffer whose noise peaks reach 0.2 absolute (the preamble template's tolerance)."""
    if clause not in ("demod_wrong_or_extra_frames", "demod_frames_lost") or case.get("fn") != "demod":
        return False
    if case.get("cls") != "ten_db_abs":
        return False
    res = case.get("res", {})
    if res.get("t") != "frames":
        return False
    noise_peak = case["case"][3] if len(case.get("case", [])) > 3 else 0
    if noise_peak < 200:
        return False
    got = ["".join(chr(c) for c in t) for t in res["v"]]
    sent = [bytes(f).hex().upper() for f in case.get("sent", [])]
    # what was returned beyond the modulated frames may only be of a format that carries no checksum (DF4/5/11/20/21)
    extra = [g for g in got if g not in sent]
    return all((int(x[:2], 16) >> 3) in (4, 5, 11, 20, 21) for x in extra)
