"""C04 - CPR decode with a reference position (airborne and surface).

A: MC_CPR (Mode = "local"): for the C03 position set, both parities, airborne and surface encodings, nine reference
   offsets (centre, +-(half zone - margin) in latitude, in longitude, four corners): Local(Encode(p), ref) is within one
   bin of p and is the SAME lattice point for every offset.
B/C: the dumped cases as frames -> position_with_ref / airborne_position_with_ref / surface_position_with_ref with the
   same reference offsets (references on the 360/2^20-degree grid, exactly representable) -> TLC (TV_CPR.LocalJudge).
"""
from .. import gen, cprgen
from . import c01


def ref_offsets(kind, ni):
    hl = 8700 if kind == "air" else 2170
    hz = ((524288 if kind == "air" else 131072) // max(ni, 1)) - 40
    return [(0, 0), (hl, 0), (-hl, 0), (0, hz), (0, -hz), (hl, hz), (-hl, -hz), (hl, -hz), (-hl, hz)]


def vectors(ctx, states):
    rng = ctx.rng
    V = []
    k = 0
    if ctx.quick:
        states = states[ctx.seed % 3::3]
    for c in states:
        for kind, ek, parity, a, o in (("air", "e0", 0, c["a0"], c["o0"]), ("air", "e1", 1, c["a1"], c["o1"]),
                                     ("surf", "s0", 0, c["a0"], c["o0"]), ("surf", "s1", 1, c["a1"], c["o1"])):
            k += 1
            if ctx.quick and (k % 4) != (len(V) % 4) and k % 3:
                continue
            e = c[ek]
            tc = rng.choice(cprgen.AIR_TCS) if kind == "air" else rng.randint(5, 8)
            f = cprgen.frame(rng, tc, parity, e["yz"], e["xz"])
            offs = ref_offsets(kind, e["ni"])
            if ctx.quick:
                offs = [offs[0]] + rng.sample(offs[1:], 3)
            else:
                if (k + len(V)) % 2:
                    continue
                offs = [offs[0]] + rng.sample(offs[1:], 5)
            for off in offs:
                r = cprgen.rx20(a) + off[0]
                s = cprgen.rx20(o) + off[1]
                if abs(r) > 262144:
                    continue
                fn = ("adsb.position_with_ref" if (k + off[0]) % 2 else
                      ("adsb.airborne_position_with_ref" if kind == "air" else "adsb.surface_position_with_ref"))
                V.append({"fn": fn, "frame": f, "r": r, "s": s, "ht": 1, "truth": [a, o], "kind": kind,
                          "case": [kind, parity, a, o, off[0], off[1]]})
            # references that are NOT on the grid: the zone boundaries themselves (k * 90 / ni or k * 360 / ni degrees, and the same
            # in latitude with 60 / 59 zones - what a reference taken from an earlier decoded position with a zero CPR field looks
            # like) and whole degrees, as the nearest floats.  The spec brackets such a reference by its two grid neighbours
            if (k + len(V)) % (3 if ctx.quick else 2) == 0:
                span = 360 if kind == "air" else 90
                lat_d, lon_d = a * 360.0 / (1 << 24), o * 360.0 / (1 << 24)
                nz, ni = 60 - parity, max(e["ni"], 1)
                kr, ks = round(lat_d * nz / span), round(lon_d * ni / span)
                cands = []
                if abs(lat_d * nz / span - kr) < 0.45 and abs(lon_d * ni / span - ks) < 0.45:
                    cands += [(span * kr, nz, span * ks, ni), (span * kr, nz, round(lon_d), 1), (round(lat_d), 1, span * ks, ni)]
                if abs(lon_d - round(lon_d)) < 0.45 * span / ni:
                    cands.append((round(lat_d), 1, round(lon_d), 1))
                    cands.append((round(lat_d * 2), 2, round(lon_d) * 5 // 5, 1))
                for (rn, rd, sn, sd) in cands:
                    if abs(rn) > 90 * rd or abs(rn / rd - lat_d) > 0.45 * span / nz or abs(sn) * 131072 > 2000000000:
                        continue
                    V.append({"fn": "adsb.position_with_ref.frac", "frame": f, "rn": rn, "rd": rd, "sn": sn, "sd": sd, "kind": kind,
                              "via": (k + rn) % 2, "ht": 1, "truth": [a, o], "case": [kind, parity, a, o, "frac", rn, rd, sn, sd]})
    # dispatcher guard cells
    for tc in range(32):
        f = gen.set_bits(gen.rand_frame_df(rng, 17), 33, 37, tc)
        V.append({"fn": "adsb.position_with_ref", "frame": f, "r": 1000, "s": 2000, "ht": 0, "truth": [0, 0],
                  "kind": "surf" if 5 <= tc <= 8 else "air", "case": ["guard", tc]})
    return V


def case_of(e):
    return (e["fn"], tuple(e["case"]))


def run(ctx):
    ctx.defer_guards = True
    ctx.rule = ("C03 position set x both parities x {airborne, surface} x reference offsets {0, +-(half zone - margin) in lat, in "
                "lon, four corners} on the 360/2^20-degree grid (quick: centre + 3 random of the 8); exactly-half-zone references "
                "excluded as the statement says 'closer than'; distinct = (fn, kind, parity, a, o, offset)")
    ctx.extra["model_cases"] = 0
    for phase in cprgen.phases(ctx):
        states = cprgen.run_model(ctx, "local", "C04 local decode" + " (anchor shard %d/4)" % phase, phase)
        ctx.extra["model_cases"] += len(states)
        # bounded memory: replay and validate the shard in slices of 25 000 model cases (thorough)
        step = ctx.pick(200000, 25000)
        for lo in range(0, len(states), step):
            ctx.check_events(vectors(ctx, states[lo:lo + step]), case_of=case_of)
        del states


replay = c01.replay
