--------------------------------- MODULE ADSB -------------------------------
(* Extended-squitter ME field layouts (DO-260B), encoder side and decoder    *)
(* side.  ME bit n = frame bit 32+n.  Engineering values are exact rationals *)
(* <<num, den>> or integers; "NA" (= -2147483647) stands for "not available".*)
EXTENDS Frame, AltId

NA == -2147483647

\* integer square root (floor)
ISqrt(n) ==
  LET RECURSIVE F(_, _)
      F(lo, hi) == IF lo = hi THEN lo
                   ELSE LET mid == (lo + hi + 1) \div 2
                        IN  IF mid * mid <= n THEN F(mid, hi) ELSE F(lo, mid - 1)
  IN  F(0, 46340)

\* an extended squitter: DF17/18, CA/CF, address, 56 ME bits, parity
BuildES(df, ca, addr, mebits) ==
  BuildPI(<<df * 8 + ca, addr \div 65536, (addr \div 256) % 256, addr % 256>> \o BytesOf(mebits), 0)

\* concatenate <<value, width>> pairs into a bit string
Pack(fields) ==
  LET RECURSIVE Go(_, _)
      Go(k, acc) == IF k > Len(fields) THEN acc
                    ELSE LET nx == acc \o FromInt(fields[k][1], fields[k][2]) IN Go(k + 1, nx)
  IN  Go(1, <<>>)

(* ------------------------- TC 1-4 identification ------------------------- *)
\* Annex 10 six-bit character set: 1-26 letters, 32 space, 48-57 digits
CharOf(c) == IF c >= 1 /\ c <= 26 THEN 64 + c
             ELSE IF c = 32 THEN 95            \* space is rendered '_'
             ELSE IF c >= 48 /\ c <= 57 THEN c
             ELSE 35                           \* '#': not a legal character
LegalChar(c) == (c >= 1 /\ c <= 26) \/ c = 32 \/ (c >= 48 /\ c <= 57)
LegalCodes == (1..26) \cup {32} \cup (48..57)

IdentME(tc, cat, cs) == Pack(<<<<tc, 5>>, <<cat, 3>>>> \o [k \in 1..8 |-> <<cs[k], 6>>])
CharCodes(f) == [k \in 1..8 |-> MEField(f, 3 + 6 * k, 8 + 6 * k)]
\* cs20 keeps '#', adsb.callsign drops it (named deviation CallsignDropsHash)
CallsignRaw(f) == [k \in 1..8 |-> CharOf(CharCodes(f)[k])]
CallsignText(f) == SelectSeq(CallsignRaw(f), LAMBDA x : x # 35)
Category(f) == MEField(f, 6, 8)

(* --------------------- TC 5-8 surface movement / track -------------------- *)
\* ground speed in 1/8 kt for movement code m, NA when not available / reserved
MovementEighths(m) ==
  IF m = 0 \/ m > 124 THEN NA
  ELSE IF m = 1 THEN 0
  ELSE IF m <= 8 THEN 1 + (m - 2)                 \* 0.125 kt steps from 0.125
  ELSE IF m <= 12 THEN 8 + 2 * (m - 9)            \* 0.25 kt steps from 1
  ELSE IF m <= 38 THEN 16 + 4 * (m - 13)          \* 0.5 kt steps from 2
  ELSE IF m <= 93 THEN 120 + 8 * (m - 39)         \* 1 kt steps from 15
  ELSE IF m <= 108 THEN 560 + 16 * (m - 94)       \* 2 kt steps from 70
  ELSE IF m <= 123 THEN 800 + 40 * (m - 109)      \* 5 kt steps from 100
  ELSE 1400                                       \* 124: >= 175 kt
SurfMov(f) == MEField(f, 6, 12)
SurfTrkStatus(f) == MEBit(f, 13)
SurfTrk(f) == MEField(f, 14, 20)                  \* x 360/128 = x 45/16 degrees

(* ------------------------- TC 19 airborne velocity ------------------------ *)
VelME(st, ic, ifr, nuc, s1, v1, s2, v2, vrsrc, svr, vr, rsv, sdiff, diff) ==
  Pack(<<<<19, 5>>, <<st, 3>>, <<ic, 1>>, <<ifr, 1>>, <<nuc, 3>>, <<s1, 1>>, <<v1, 10>>, <<s2, 1>>, <<v2, 10>>,
         <<vrsrc, 1>>, <<svr, 1>>, <<vr, 9>>, <<rsv, 2>>, <<sdiff, 1>>, <<diff, 7>>>>)

Subtype19(f) == MEField(f, 6, 8)
VelS1(f) == MEBit(f, 14)
VelV1(f) == MEField(f, 15, 24)
VelS2(f) == MEBit(f, 25)
VelV2(f) == MEField(f, 26, 35)
VrSrc(f) == MEBit(f, 36)
VrSign(f) == MEBit(f, 37)
VrVal(f) == MEField(f, 38, 46)
DiffSign(f) == MEBit(f, 49)
DiffVal(f) == MEField(f, 50, 56)
NUCv(f) == MEField(f, 11, 13)

Mult(st) == IF st \in {2, 4} THEN 4 ELSE 1
\* signed velocity components (kt), subtypes 1-2; west / south negative
Vwe(f) == (IF VelS1(f) = 1 THEN -1 ELSE 1) * (VelV1(f) - 1) * Mult(Subtype19(f))
Vsn(f) == (IF VelS2(f) = 1 THEN -1 ELSE 1) * (VelV2(f) - 1) * Mult(Subtype19(f))
\* the library truncates the speed to whole knots (named deviation SpeedTruncated)
GroundSpeed(f) == ISqrt(Vwe(f) * Vwe(f) + Vsn(f) * Vsn(f))
VertRate(f) == IF VrVal(f) = 0 THEN NA ELSE (IF VrSign(f) = 1 THEN -1 ELSE 1) * (VrVal(f) - 1) * 64
Airspeed(f) == IF VelV2(f) = 0 THEN NA ELSE (VelV2(f) - 1) * Mult(Subtype19(f))
AltDiff(f) == IF DiffVal(f) = 0 THEN NA ELSE (IF DiffSign(f) = 1 THEN -1 ELSE 1) * (DiffVal(f) - 1) * 25

(* --------------------------- TC 28 aircraft status ------------------------ *)
Subtype28(f) == MEField(f, 6, 8)
EmergencyState(f) == MEField(f, 9, 11)

(* ---------------------- TC 29 target state and status --------------------- *)
Subtype29(f) == MEField(f, 6, 7)

(* ---------------------------- TC 31 op status ----------------------------- *)
Version31(f) == MEField(f, 41, 43)
=============================================================================
