---------------------------- MODULE Trace_Tracker ---------------------------
(* Role C for C17: process_raw() calls of the real Decode object, recorded    *)
(* with the full projected table after each call and the ground truth of the *)
(* genuine position squitters, are checked (1) against the model             *)
(* Tracker.Process started from the previously recorded table and (2)        *)
(* against the property's own predicates (Fresh, Gate, Accurate, NoRaise).   *)
(*  [ev |-> "start", run, rx]                     a new Decode object         *)
(*  [ev |-> "proc", run, id, tnow, adsb, commb, post, exc, dup]               *)
(*     message: [f |-> frame bytes, t |-> half seconds, g |-> 1 if genuine position squitter, a, o |-> truth]  *)
(*     post entry: [addr, live, hp, tpos, posA, posS, r, s, e, o, cb]         *)
EXTENDS Tracker, TV_CPR, ADSB, Json, IOUtils

Events == ndJsonDeserialize(IOEnv.TRACE_FILE)

VARIABLES l, tab, heard, seen, rx

ClsOf(f) ==
  LET tc == TypeCode(f) IN
  IF tc >= 1 /\ tc <= 4 THEN "ident" ELSE IF tc >= 5 /\ tc <= 8 THEN "surf" ELSE IF tc >= 9 /\ tc <= 18 THEN "air"
  ELSE IF tc = 19 THEN "vel" ELSE "other"
AbsAdsb(m) == [addr |-> IcaoInt(m.f), t |-> m.t, cls |-> ClsOf(m.f), oe |-> OE(m.f), yz |-> YZ(m.f), xz |-> XZ(m.f),
               skip |-> ClsOf(m.f) = "surf" /\ (MovementEighths(SurfMov(m.f)) = NA \/ SurfTrkStatus(m.f) = 0)]
AbsCommB(m) == [addr |-> IcaoInt(m.f), t |-> m.t, cls |-> "commb", oe |-> 0, yz |-> 0, xz |-> 0, skip |-> FALSE]

SlotOf(s) == IF s.has = 1 THEN [has |-> TRUE, t |-> s.t, yz |-> s.yz, xz |-> s.xz,
                                cls |-> IF s.tc >= 5 /\ s.tc <= 8 THEN "surf" ELSE "air"]
             ELSE NoSlot
\* recorded table -> model table (the lattice fields are not needed to continue: references use r, s)
EntryOf(p) == [live |-> p.live, hasPos |-> p.hp = 1, tpos |-> p.tpos, pk |-> "", L |-> 0, N |-> 60, M |-> 0, ni |-> 1,
               r |-> p.r, s |-> p.s, e |-> SlotOf(p.e), o |-> SlotOf(p.o)]
TableOf(post) == [a \in {post[k].addr : k \in 1..Len(post)} |->
                    EntryOf(post[CHOOSE k \in 1..Len(post) : post[k].addr = a])]

SameSlot(ms, ps) == ms.has = (ps.has = 1) /\ (ms.has => ms.t = ps.t /\ ms.yz = ps.yz /\ ms.xz = ps.xz /\ ms.cls = SlotOf(ps).cls)
\* does the recorded entry p agree with the model entry m (position compared on the lattice when it was set in this call)
SameEntry(m, p, pre) ==
  /\ m.live = p.live /\ m.hasPos = (p.hp = 1) /\ (m.hasPos => m.tpos = p.tpos)
  /\ SameSlot(m.e, p.e) /\ SameSlot(m.o, p.o)
  /\ (m.hasPos /\ m.pk # "") =>       \* pk # "": position computed by the model in this call
        PosMatchModTurn(IF m.pk = "surf" THEN p.posS ELSE p.posA, [L |-> m.L, N |-> m.N, M |-> m.M, ni |-> m.ni], m.pk)

ModelAgrees(mt, post) ==
  /\ DOMAIN mt = {post[k].addr : k \in 1..Len(post)}
  /\ \A k \in 1..Len(post) : SameEntry(mt[post[k].addr], post[k], tab)

\* which part of the table differs from the model (for the MODEL-DRIFT report)
DriftKind(mt, post) ==
  IF DOMAIN mt # {post[k].addr : k \in 1..Len(post)} THEN "keys"
  ELSE LET bad == CHOOSE k \in 1..Len(post) : ~SameEntry(mt[post[k].addr], post[k], tab)
           m == mt[post[bad].addr]  p == post[bad]
       IN  IF m.live # p.live THEN "live"
           ELSE IF m.hasPos # (p.hp = 1) THEN (IF m.hasPos THEN "position_missing" ELSE "position_unexpected")
           ELSE IF m.hasPos /\ m.tpos # p.tpos THEN (IF m.tpos > p.tpos THEN "position_not_updated" ELSE "position_updated_unexpectedly")
           ELSE IF ~SameSlot(m.e, p.e) \/ ~SameSlot(m.o, p.o) THEN "slots"
           ELSE "lattice"

\* ---- the property's predicates on the recorded table ----
LastT(seq, x) == LET ks == {k \in 1..Len(seq) : seq[k].addr = x} IN seq[CHOOSE k \in ks : \A q \in ks : q <= k].t
HeardNext(e, aa, cc) ==
  LET adsbA == {aa[k].addr : k \in 1..Len(aa)}
      mid == Process(tab, aa, <<>>, 0, rx)
      cbA == {cc[k].addr : k \in 1..Len(cc)} \cap DOMAIN mid
  IN  [x \in adsbA \cup cbA \cup DOMAIN heard |->
         Max(IF x \in adsbA THEN LastT(aa, x) ELSE 0, Max(IF x \in cbA THEN LastT(cc, x) ELSE 0, IF x \in DOMAIN heard THEN heard[x] ELSE 0))]

Keys(post) == {post[k].addr : k \in 1..Len(post)}
FreshOK(e, h) == \A x \in DOMAIN h :
   /\ (e.tnow - h[x] <= 118 => x \in Keys(e.post))
   /\ (e.tnow - h[x] > 122 => x \notin Keys(e.post))
GateOK(e, sn) == Keys(e.post) \subseteq sn /\ e.dup = 0

\* stored position of entry p against the truth of the genuine squitter that set it (same address, same time)
AccurateOK(e) == \A k \in 1..Len(e.post) :
   LET p == e.post[k]
       cand == {i \in 1..Len(e.adsb) : e.adsb[i].g = 1 /\ IcaoInt(e.adsb[i].f) = p.addr /\ e.adsb[i].t = p.tpos}
   IN  (p.hp = 1 /\ cand # {}) =>
         LET m == e.adsb[CHOOSE i \in cand : \A q \in cand : q <= i]
             dl == p.posA.lat26 - 4 * m.a
             d0 == PosMod(p.posA.lon26 - 4 * m.o, 67108864)
         IN  Abs(dl) <= 187 /\ Min(d0, 67108864 - d0) <= 187

\* the harness's own encoder must agree with the spec's encoder on every genuine squitter (oracle self-check)
EncoderOK(e) == \A i \in 1..Len(e.adsb) :
   e.adsb[i].g = 1 =>
      LET f == e.adsb[i].f  en == Encode(IF ClsOf(f) = "surf" THEN "surf" ELSE "air", e.adsb[i].a, e.adsb[i].o, OE(f))
      IN  en.yz = YZ(f) /\ en.xz = XZ(f)

Init == l = 1 /\ tab = <<>> /\ heard = <<>> /\ seen = {} /\ rx = <<FALSE, 0, 0>> /\ TLCSet(1, 0)

Reject(e, why) == PrintT(<<"REJECT", e.id, why>>) /\ TLCSet(1, TLCGet(1) + 1)

Next ==
  /\ l <= Len(Events)
  /\ l' = l + 1
  /\ LET e == Events[l] IN
     IF e.ev = "start" THEN
          /\ tab' = <<>> /\ heard' = <<>> /\ seen' = {} /\ rx' = <<e.rx[1] = 1, e.rx[2], e.rx[3]>>
     ELSE LET aa == [k \in 1..Len(e.adsb) |-> AbsAdsb(e.adsb[k])]
              cc == [k \in 1..Len(e.commb) |-> AbsCommB(e.commb[k])]
              h == HeardNext(e, aa, cc)
              sn == seen \cup {aa[k].addr : k \in 1..Len(aa)}
              verdict ==
                IF e.exc = 1 THEN "process_raw_raised"
                ELSE IF ~EncoderOK(e) THEN "oracle:harness_encoder_differs_from_spec"
                ELSE IF ~GateOK(e, sn) THEN (IF e.dup = 1 THEN "two_keys_for_one_address" ELSE "commb_or_unknown_aircraft_listed")
                ELSE IF ~FreshOK(e, h) THEN "staleness_bound"
                ELSE IF ~AccurateOK(e) THEN "stored_position_off_by_more_than_0.001_deg"
                ELSE IF ~ModelAgrees(Process(tab, aa, cc, e.tnow, rx), e.post)
                     THEN "drift:table_differs_from_model_" \o DriftKind(Process(tab, aa, cc, e.tnow, rx), e.post)
                ELSE "ok"
          IN  /\ (IF verdict = "ok" THEN TRUE ELSE Reject(e, verdict))
              /\ tab' = TableOf(e.post) /\ heard' = h /\ seen' = sn /\ rx' = rx

Done == PrintT(<<"DONE", Len(Events), TLCGet("stats").diameter, TLCGet(1)>>)
=============================================================================
