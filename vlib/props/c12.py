"""C12 - BDS register inference: total, format-sound, complete on plausible data.

A: MC_CommB.Env (completeness on envelope boundaries, soundness against single-rule violations) + CasMonotone (the
   bracketing argument of the Mach/IAS rule).
B/C: boundary-directed payloads (each rule's threshold +-1 LSB, each status bit with zero / non-zero field, each reserved
   bit), in-envelope encodings of every register (cross-talk through every isXX), all-zero, DF17 x TC 0..31, DF18, DF20
   with altitude codes on the CAS grid, DF21, mrar in {F,T}, recorded traffic, seeded random and sparse payloads ->
   bds.infer / isXX / is50or60 -> TLC (TV_CommB: the spec recomputes every rule from the bits).
"""
from .. import gen
from . import c01

LAY = {
    40: [("s", 1), ("v", 12), ("s", 1), ("v", 12), ("s", 1), ("v", 12), ("r", 8), ("s", 1), ("v", 3), ("r", 2), ("s", 1), ("v", 2)],
    50: [("s", 1), ("g", 1), ("v", 9), ("s", 1), ("g", 1), ("v", 10), ("s", 1), ("v", 10), ("s", 1), ("g", 1), ("v", 9), ("s", 1), ("v", 10)],
    60: [("s", 1), ("g", 1), ("v", 10), ("s", 1), ("v", 10), ("s", 1), ("v", 10), ("s", 1), ("g", 1), ("v", 9), ("s", 1), ("g", 1), ("v", 9)],
    44: [("v", 4), ("s", 1), ("v", 9), ("v", 9), ("g", 1), ("v", 10), ("s", 1), ("v", 11), ("s", 1), ("v", 2), ("s", 1), ("v", 6)],
    45: [("s", 1), ("v", 2), ("s", 1), ("v", 2), ("s", 1), ("v", 2), ("s", 1), ("v", 2), ("s", 1), ("v", 2), ("s", 1), ("g", 1), ("v", 9),
         ("s", 1), ("v", 11), ("s", 1), ("v", 12), ("r", 5)],
    # BDS 5,3 is not a candidate of infer(); its format test is50-like and public (commb.is53)
    53: [("s", 1), ("g", 1), ("v", 10), ("s", 1), ("v", 10), ("s", 1), ("v", 9), ("s", 1), ("v", 12), ("s", 1), ("g", 1), ("v", 8)],
}
ISFNS = ["is10", "is17", "is20", "is30", "is40", "is44", "is45", "is50", "is53", "is60"]


def pack(reg, vals):
    """vals: list matching LAY[reg] entries (ints). returns 56-bit int"""
    out = 0
    n = 0
    for (kind, w), x in zip(LAY[reg], vals):
        out = (out << w) | (x & ((1 << w) - 1))
        n += w
    assert n == 56
    return out


def commb_frame(rng, df, mb, ac13=None):
    f = gen.rand_frame_df(rng, df)
    for k in range(7):
        f[4 + k] = (mb >> (8 * (6 - k))) & 255
    if ac13 is not None:
        f = gen.set_bits(f, 20, 32, ac13)
    u = rng.random()
    if u < 0.12:
        # the address-parity field of a reply from a boundary address (000000: AP = plain parity; FFFFFF; a one-bit address)
        f = gen.with_parity(f[:11], rng.choice([0, 0, 0xFFFFFF, 1 << rng.randrange(24)]))
    elif u < 0.17:
        f = gen.selfsim_tail(rng, f, 1.0)
    return f


def rand_vals(rng, reg, envelope=True):
    vals = []
    lay = LAY[reg]
    for idx, (kind, w) in enumerate(lay):
        if kind == "r":
            vals.append(0)
        elif kind in ("s", "g"):
            vals.append(rng.randrange(2))
        else:
            vals.append(rng.randrange(1 << w))
    if not envelope:
        return vals
    # keep inside the plausibility envelope and status-consistent
    if reg == 50:
        vals[2] = rng.choice([0, 1, 100, 284]) if vals[1] == 0 else rng.choice([511, 400, 512 - 284])
        vals[7] = rng.randrange(0, 301)
        vals[12] = max(0, min(300, vals[7] + rng.randint(-100, 100)))
    if reg == 60:
        vals[4] = rng.randrange(0, 501)
        vals[6] = rng.randrange(0, 251)
        vals[9] = rng.randrange(0, 188) if vals[8] == 0 else rng.randrange(512 - 187, 512)
        vals[12] = rng.randrange(0, 188) if vals[11] == 0 else rng.randrange(512 - 187, 512)
    if reg == 44:
        vals[0] = rng.randrange(0, 5)
        vals[2] = rng.randrange(0, 251)
        vals[5] = rng.randrange(0, 240) if vals[4] == 0 else rng.randrange(1024 - 320, 1024)
    if reg == 45:
        vals[12] = rng.randrange(0, 240) if vals[11] == 0 else rng.randrange(512 - 320, 512)
    if reg == 53:
        vals[4] = rng.randrange(0, 501)
        vals[6] = rng.randrange(0, 126)
        vals[8] = rng.randrange(0, 1001)
        vals[11] = rng.randrange(0, 126) if vals[10] == 0 else rng.randrange(256 - 125, 256)
    # status consistency: a cleared status bit forces its value (and sign) to zero
    st = None
    for idx, (kind, w) in enumerate(lay):
        if kind == "s":
            st = vals[idx]
        elif kind in ("v", "g") and st == 0:
            if not (reg == 44 and idx in (0, 4, 5)) and not (reg == 45 and False):
                vals[idx] = 0
    return vals


def alt_q(ft):
    """13-bit Q=1 altitude code for a multiple of 25 ft"""
    n = (ft + 1000) // 25
    b = [(n >> (10 - k)) & 1 for k in range(11)]
    bits = b[0:6] + [0] + b[6:7] + [1] + b[7:11]
    v = 0
    for x in bits:
        v = (v << 1) | x
    return v


def vectors(ctx):
    rng = ctx.rng
    V = []

    def add_all(f, case, isfns=True, infer=True):
        if infer:
            for mrar in (0, 1):
                V.append({"fn": "bds.infer", "frame": f, "mrar": mrar, "case": case + [mrar]})
        if isfns:
            for n in ISFNS:
                V.append({"fn": "commb." + n, "frame": f, "case": case + [n]})

    # (1) in-envelope encodings of each register, DF20 (altitude code zero or on the CAS grid) and DF21
    for reg in (40, 50, 60, 44, 45):
        for k in range(ctx.pick(150, 4000)):
            mb = pack(reg, rand_vals(rng, reg))
            df = (20, 21)[k % 2]
            ac = rng.choice([0, alt_q(rng.randrange(0, 45) * 1000), alt_q(rng.randrange(0, 1800) * 25)]) if df == 20 else None
            add_all(commb_frame(rng, df, mb, ac), ["env", reg, k], isfns=(k % 3 == 0))
    for k in range(ctx.pick(60, 1500)):
        add_all(commb_frame(rng, 20 + k % 2, pack(53, rand_vals(rng, 53))), ["env", 53, k], isfns=(k % 3 == 0), infer=(k % 3 == 0))
        base = pack(53, rand_vals(rng, 53))
        for bit in range(56):
            if ctx.quick and (bit + k) % 4:
                continue
            V.append({"fn": "commb.is53", "frame": commb_frame(rng, 20 + bit % 2, base ^ (1 << (55 - bit)), 0), "case": ["flip1", 53, k, bit]})
    for ias in (499, 500, 501):
        for mach in (124, 125, 126):
            for tas in (999, 1000, 1001):
                for vr in (124, 125, 126, 256 - 126, 256 - 125):
                    V.append({"fn": "commb.is53", "frame": commb_frame(rng, 21, pack(53, [1, 0, 100, 1, ias, 1, mach, 1, tas, 1, 1 if vr > 127 else 0, vr])),
                              "case": ["thr53", ias, mach, tas, vr]})
    # (2) single-rule violations / thresholds: start from an in-envelope payload and flip one bit or bump one field
    for reg in (40, 50, 60, 44, 45):
        for k in range(ctx.pick(40, 800)):
            base = pack(reg, rand_vals(rng, reg))
            for bit in range(56):
                if ctx.quick and (bit + k) % 4:
                    continue
                mb = base ^ (1 << (55 - bit))
                add_all(commb_frame(rng, 21, mb), ["flip", reg, k, bit], isfns=False)
                V.append({"fn": "commb.is%d" % reg, "frame": commb_frame(rng, 20 + bit % 2, mb, 0), "case": ["flip1", reg, k, bit]})
    # thresholds +-1 LSB
    for gs in (299, 300, 301):
        for tas in (gs - 101, gs - 100, gs + 100, gs + 101, 300, 301):
            if 0 <= tas < 1024:
                add_all(commb_frame(rng, 21, pack(50, [1, 0, 10, 1, 0, 100, 1, gs, 1, 0, 3, 1, tas])), ["thr50", gs, tas])
    for roll in (283, 284, 285, 512 - 285, 512 - 284, 512 - 283):
        add_all(commb_frame(rng, 21, pack(50, [1, 1 if roll > 285 else 0, roll, 1, 0, 100, 1, 100, 1, 0, 3, 1, 100])), ["thr50r", roll])
    for ias in (499, 500, 501):
        for mach in (249, 250, 251):
            for vr in (186, 187, 188, 512 - 188, 512 - 187):
                add_all(commb_frame(rng, 21, pack(60, [1, 0, 100, 1, ias, 1, mach, 1, 1 if vr > 255 else 0, vr, 1, 0, 5])),
                        ["thr60", ias, mach, vr])
    for fom in range(16):
        for w in (249, 250, 251):
            add_all(commb_frame(rng, 21, pack(44, [fom, 1, w, 5, 0, 100, 1, 1000, 1, 2, 1, 30])), ["thr44", fom, w], isfns=False)
            V.append({"fn": "commb.is44", "frame": commb_frame(rng, 20, pack(44, [fom, 1, w, 5, 0, 100, 1, 1000, 1, 2, 1, 30]), 0),
                      "case": ["thr44", fom, w]})
    for t in (239, 240, 241, 479, 480, 481, 1024 - 321, 1024 - 320, 1024 - 641, 1024 - 640, 1024 - 639):
        add_all(commb_frame(rng, 21, pack(44, [2, 1, 10, 5, 1 if t > 511 else 0, t, 1, 1000, 0, 0, 0, 0])), ["thr44t", t])
    for t in (239, 240, 241, 512 - 321, 512 - 320, 512 - 319):
        add_all(commb_frame(rng, 21, pack(45, [0, 0, 0, 0, 0, 0, 0, 0, 0, 0, 1, 1 if t > 255 else 0, t, 0, 0, 0, 0, 0])), ["thr45t", t])
    # BDS 1,0 / 1,7 / 2,0 / 3,0
    for ovc in (0, 1):
        for dte in range(0, 12):
            for rsv in (0, 1, 16):
                mb = (0x10 << 48) | (rsv << 42) | (ovc << 41) | (dte << 33)
                add_all(commb_frame(rng, 20 + dte % 2, mb, 0), ["bds10", ovc, dte, rsv])
    for k in range(24):
        mb = (1 << (55 - k)) | (1 << (55 - 6))
        add_all(commb_frame(rng, 21, mb), ["bds17", k], isfns=(k % 4 == 0))
        add_all(commb_frame(rng, 21, mb | (1 << rng.randrange(32))), ["bds17x", k], isfns=False)
    for k in range(ctx.pick(60, 2000)):
        codes = [rng.choice(list(range(1, 27)) + [32] + list(range(48, 58))) for _ in range(8)]
        if k % 5 == 0:
            codes[rng.randrange(8)] = rng.choice([0, 27, 31, 33, 47, 58, 63])
        mb = 0x20
        for c in codes:
            mb = (mb << 6) | c
        add_all(commb_frame(rng, 20 + k % 2, mb, 0), ["bds20", k], isfns=(k % 4 == 0))
    add_all(commb_frame(rng, 21, 0x20 << 48), ["bds20empty"])
    for tt in range(4):
        for x in (0, 47, 48, 127):
            mb = (0x30 << 48) | (x << 34) | (tt << 26)
            add_all(commb_frame(rng, 21, mb), ["bds30", tt, x])
    # (3) all-zero payload, DF17/18 x type codes
    for df in (17, 18, 20, 21, 16, 19):
        f = gen.rand_frame_df(rng, df)
        f = f[:4] + [0] * 7 + f[11:]
        add_all(f, ["zero", df], isfns=False)
    for tc in range(32):
        for df in (17, 18):
            for _ in range(ctx.pick(2, 20)):
                f = gen.set_bits(gen.rand_frame_df(rng, df), 33, 37, tc)
                add_all(f, ["tc", df, tc], isfns=False)
    # (4) Mach / IAS rule: DF20, altitudes on the 1000-ft grid and in between, below sea level too; IAS anywhere and - half of the
    # cases - within a few knots of the two 20-kt limits (the input is only CHOSEN with this float formula, the verdict is the spec's)
    def cas_kt(m, alt_ft):
        import math
        h = alt_ft * 0.3048
        T = max(288.15 - 0.0065 * h, 216.65)
        rho = 1.225 * (T / 288.15) ** 4.256848 * math.exp(-max(0.0, h - 11000.0) / 6341.552)
        p = rho * 287.05287 * T
        qdyn = p * ((1 + 0.2 * m * m) ** 3.5 - 1)
        return math.sqrt(7 * 101325.0 / 1.225 * ((qdyn / 101325.0 + 1) ** (2 / 7.0) - 1)) / 0.514444

    for k in range(ctx.pick(1800, 24000)):
        mach = rng.randrange(50, 251)
        alt = rng.choice([rng.randrange(-1, 46) * 1000, rng.randrange(-40, 1800) * 25, rng.randrange(-40, 1) * 25, rng.randrange(-40, 1) * 25])
        ias = rng.randrange(0, 501)
        if k % 2:
            ias = max(0, min(1023, int(round(cas_kt(mach * 0.004, alt))) + rng.choice([-27, -23, -21, -20, -19, -17, 17, 19, 20, 21, 23, 27])))
        mb = pack(60, [1, 0, rng.randrange(1024), 1, ias, 1, mach, 0, 0, 0, 0, 0, 0])
        f = commb_frame(rng, 20, mb, alt_q(alt))
        V.append({"fn": "commb.is60", "frame": f, "case": ["aero", mach, alt, ias]})
        if k % 4 == 0:
            add_all(f, ["aero", mach, alt, ias], isfns=False)
    # (5) payloads that are both 5,0 and 6,0 -> is50or60 with references at sea level
    for k in range(ctx.pick(400, 8000)):
        r = rng.randrange(0, 170)
        v = rng.randrange(60, 500)                # trk50 raw = ias60
        m = max(25, min(250, round(v * 250 / 661.48) + rng.choice([0, 0, 0, 1, -1, 12, -12])))
        gsraw = m                                  # bits 25-34 shared
        tasraw = max(0, min(187, gsraw + rng.randint(-100, 100)))
        vb = rng.randrange(0, 188)
        head = [1, 0, 2 * r + 1, 1, v, 1, m]
        if k % 3 == 2:
            # partially available data: one interpretation lacks its track / speed / heading (status bits shared between the
            # two layouts: hdg60 value LSB = trk50 status, ias60 status = trk50 sign, mach60 status = gs50 status)
            head = rng.choice([[1, 0, 2 * r, 0, 0, 1, m],            # trk50 unavailable, ias60 unavailable
                               [1, 0, 2 * r + 1, 1, v, 0, 0],        # gs50 / mach60 unavailable
                               [0, 0, 0, 0, 0, 1, m],                # hdg60 / roll50 / trk50 unavailable
                               [1, 0, 2 * r + 1, 0, 0, 1, m],        # ias60 unavailable, trk50 = 0 deg
                               [1, 0, 2 * r + 1, 0, 0, 0, 0],        # neither mach60 nor ias60
                               [1, 0, 2 * r, 0, 0, 0, 0]])           # nothing but heading / roll
        mb = pack(60, head + [rng.randrange(2) and 1, 0, vb, 1, 0, tasraw])
        if not (mb >> (55 - 34)) & 1:
            mb &= ~(((1 << 10) - 1) << (55 - 44))
        f = commb_frame(rng, 21, mb)
        trk_num = 90 * (v - 1024) + 360 * 512
        hdg_num = 90 * (2 * r + 1)
        refs = [([2 * gsraw, 1], [trk_num, 512]), ([round(661.48 * m / 250), 1], [hdg_num, 512]),
                ([rng.randrange(100, 500), 1], [rng.randrange(0, 360 * 512), 512])]
        for spd, trk in refs:
            V.append({"fn": "bds.is50or60", "frame": f, "spd": spd, "trk": trk, "alt": 0, "case": ["5060", k, spd[0], trk[0]]})
        alt = rng.choice([5000, 10000, 25000, 35000, 41000])
        V.append({"fn": "bds.is50or60", "frame": f, "spd": refs[0][0], "trk": refs[0][1], "alt": alt, "case": ["5060alt", k, alt]})
        if k % 2 == 0 and head[3] == 1 and head[5] == 1:
            # the Mach / IAS pre-check is made at the REFERENCE altitude: payloads whose Mach and IAS agree at one pressure altitude
            # (sea level .. 60 000 ft, the upper part only reachable through 100-ft altitude codes), judged with a reference at
            # the same and at a different altitude, and with the reference vector on either interpretation - a pre-check made at
            # any other altitude than the one given shows up as a wrong label (inputs only: ISA by its defining formulas)
            hp = rng.choice([0, 10000, 25000, 36000, 45000, 50000, 55000, 60000])
            v2 = rng.randrange(80, 200 if hp > 40000 else 330)
            hm = hp * 0.3048
            pr = 101325.0 * (1 - 0.0065 * hm / 288.15) ** 5.25588 if hm <= 11000 else 22632.1 * 2.718281828459045 ** (-(hm - 11000) / 6341.62)
            qc = 101325.0 * ((1 + 0.2 * (v2 / 661.4786) ** 2) ** 3.5 - 1)
            m2 = round(((5 * ((qc / pr + 1) ** (2 / 7.0) - 1)) ** 0.5) / 0.004)
            if 25 <= m2 <= 250:
                mb2 = pack(60, [1, 0, 2 * r + 1, 1, v2, 1, m2] + [rng.randrange(2) and 1, 0, vb, 1, 0, max(0, min(187, m2 + rng.randint(-60, 60)))])
                if not (mb2 >> (55 - 34)) & 1:
                    mb2 &= ~(((1 << 10) - 1) << (55 - 44))
                f2 = commb_frame(rng, 21, mb2)
                refs2 = [([2 * m2, 1], [90 * (v2 - 1024) + 360 * 512, 512]), ([v2, 1], [hdg_num, 512]), ([round(661.48 * m2 / 250), 1], [hdg_num, 512])]
                for href in (hp, rng.choice([0, 25000, 45000, 50000, 55000, 60000])):
                    for spd, trk in refs2:
                        V.append({"fn": "bds.is50or60", "frame": f2, "spd": spd, "trk": trk, "alt": href, "case": ["5060hp", k, hp, href, spd[0]]})
        if k % 10 == 0:
            add_all(f, ["5060", k], isfns=False)
    for k in range(ctx.pick(200, 4000)):
        f = gen.rand_frame_df(rng, rng.choice([20, 21]))
        V.append({"fn": "bds.is50or60", "frame": f, "spd": [300, 1], "trk": [90 * 512, 512], "alt": rng.choice([0, 0, 20000]), "case": ["5060r", k]})
    # (6) recorded traffic and random payloads (dense and sparse)
    for kind in ("df20", "df21", "adsb"):
        for ts, msg, ic in gen.sample_frames(kind)[:ctx.pick(700, 100000)]:
            add_all(list(bytes.fromhex(msg)), ["smp", kind, len(V)], isfns=False)
    for k in range(ctx.pick(3000, 300000)):
        f = gen.rand_frame_df(rng, rng.choice([20, 21, 20, 21, 17, 18, 16]))
        if k % 2:
            mb = 0
            for _ in range(rng.randrange(1, 9)):
                mb |= 1 << rng.randrange(56)
            for q in range(7):
                f[4 + q] = (mb >> (8 * (6 - q))) & 255
        add_all(f, ["rnd", k], isfns=(k % 7 == 0))
    return V


def case_of(e):
    return (e["fn"],) + tuple(e["case"])


def run(ctx):
    ctx.rule = ("in-envelope encodings of BDS 4,0 5,0 6,0 4,4 4,5 (status-consistent), every single-bit flip of such payloads, each "
                "threshold +-1 LSB, BDS 1,0/1,7/2,0/3,0 rule cells, all-zero, DF17/18 x TC 0..31, Mach/IAS rule on the CAS grid, "
                "payloads that are both 5,0 and 6,0 with three references, recorded traffic, dense and sparse random payloads; "
                "mrar both; distinct = (fn, abstract case)")
    ctx.assumptions += ["the Mach/IAS rule is decided by TLC only where the generated CAS table decides it within 0.05 kt "
                        "(altitudes -1000..65000 ft); elsewhere either verdict is accepted"]
    cfg = open(__import__("os").path.join(__import__("vlib.tlc", fromlist=["x"]).SPEC_DIR, "MC_CommB.cfg")).read()
    cfg = cfg.replace("XStride = 7", "XStride = %d" % ctx.pick(31, 3))
    ctx.model_check("MC_CommB", cfg_text=cfg, what="Comm-B rules")
    ctx.check_events(vectors(ctx), case_of=case_of)


replay = c01.replay
