------------------------------ MODULE TV_Demod ------------------------------
(* Verdict for one buffer processed by RtlReader._process_buffer (C19).      *)
(*  e.sig: samples x 1000;  e.sent: the valid frames that were modulated, in order;                    *)
(*  e.res = [t |-> "frames", v |-> << text, ... >>] what the processor returned (hex text)            *)
EXTENDS Demod, Res

TextSeq(frames) == [k \in 1..Len(frames) |-> TextOfBytes(frames[k])]
BadDF17(t) == Len(t) = 28 /\ IsHexText(t) /\ DF(BytesOfText(t)) = 17 /\ ByteRem(BytesOfText(t)) # 0

V_demod(e) ==
  LET r == e.res IN
  IF r.t # "frames" THEN "demod_raised"
  ELSE LET got == r.v  want == TextSeq(e.sent) IN
       IF \E k \in 1..Len(got) : BadDF17(got[k]) THEN "demod_returned_df17_with_bad_checksum"
       ELSE IF got # want THEN
            (IF Len(got) < Len(want) THEN "demod_frames_lost" ELSE "demod_wrong_or_extra_frames")
       ELSE IF TextSeq(DemodAll(e.sig, e.stop = 1)) # got THEN "drift:demod_differs_from_model"
       ELSE "ok"
=============================================================================
