------------------------------- MODULE TV_CPR -------------------------------
(* Verdicts for cprNL (C06) and the CPR position decoders (C03, C04, C05).   *)
(* Observed positions arrive projected to integers by the harness:           *)
(*   [t |-> "pos", lat26, lon26 : round(deg * 2^26 / 360),                   *)
(*    latp |-> << <<60, L, exact>>, <<59, L, exact>> >>   (lattice index for each parity),                  *)
(*    lonp |-> << <<ni, M>>, ... >>  (every ni in 1..59 for which the longitude is a lattice point)]        *)
EXTENDS CPR, Frame, Res

(* ------------------------------- C06 ----------------------------------- *)
\* |lat| = a * 1e-6 + b * 1e-15 degree (0 <= b < 1e9)
LexLess(a, b, t) == a < t[1] \/ (a = t[1] /\ b < t[2])
LexEq(a, b, t) == a = t[1] /\ b = t[2]
NLofLimbs(a, b) == 1 + Cardinality({k \in 3..59 : LexLess(a, b, TransLat[k])})
                     + (IF LexLess(a, b, TransLat[2]) \/ LexEq(a, b, TransLat[2]) THEN 1 ELSE 0)
\* within 1e-9 degree (= 1e6 units of 1e-15) of transition k
NearTrans(a, b, k) ==
  LET t == TransLat[k]
  IN  Abs(a - t[1]) <= 1 /\ Abs((a - t[1]) * 1000000000 + (b - t[2])) <= 1000000

V_cprNL(e) ==
  LET a == e.lat[2]  b == e.lat[3]
      want == NLofLimbs(a, b)
  IN  IF a > 90000000 \/ (a = 90000000 /\ b > 0) THEN "ok"      \* outside [-90, 90]: not constrained
      ELSE IF IsInt(e.res, want) THEN "ok"
      ELSE IF \E k \in 2..59 : NearTrans(a, b, k) /\ (IsInt(e.res, k) \/ IsInt(e.res, k - 1)) THEN "ok"
      ELSE "cprNL_value"

(* ------------------------- observed positions -------------------------- *)
PosMatch(r, w) ==
  /\ r.t = "pos"
  /\ \E k \in 1..Len(r.latp) : r.latp[k][1] = w.N /\ r.latp[k][2] = w.L /\ r.latp[k][3] = 1
  /\ \E k \in 1..Len(r.lonp) : r.lonp[k][1] = w.ni /\ r.lonp[k][2] = w.M

\* same but longitude compared modulo one turn (local decoders do not normalise)
PosMatchModTurn(r, w, kind) ==
  /\ r.t = "pos"
  /\ \E k \in 1..Len(r.latp) : r.latp[k][1] = w.N /\ r.latp[k][2] = w.L /\ r.latp[k][3] = 1
  /\ \E k \in 1..Len(r.lonp) : r.lonp[k][1] = w.ni /\ PosMod(r.lonp[k][2] - w.M, w.ni * Sc(kind) * P17) = 0

\* the property's own predicate on the observed floats: within one quantisation step of the truth (a, o)
ObsWithinBin(r, kind, a, o, N, ni) ==
  LET dl == r.lat26 - 4 * a
      d0 == PosMod(r.lon26 - 4 * o, 67108864)
      dn == Min(d0, 67108864 - d0)
  IN  /\ r.t = "pos"
      /\ Abs(dl) < 100000 /\ Abs(dl) * N * Sc(kind) <= 512 + N * Sc(kind)
      /\ dn < 100000 /\ dn * ni * Sc(kind) <= 512 + ni * Sc(kind)

\* frame accessors
YZ(f) == MEField(f, 23, 39)
XZ(f) == MEField(f, 40, 56)
OE(f) == MEBit(f, 22)
Fld(f) == [yz |-> YZ(f), xz |-> XZ(f)]
AirTC(tc) == (tc >= 9 /\ tc <= 18) \/ (tc >= 20 /\ tc <= 22)
SurfTC(tc) == tc >= 5 /\ tc <= 8

\* judge an observed result r against the model result w (possibly NoPos) and, when the trace carries the
\* ground truth of the newer frame, against the property predicate
JudgePair(r, w, kind, hasTruth, a, o, evenNewest, clauseBase) ==
  IF w.none THEN
       IF IsNone(r) THEN "ok"
       ELSE IF hasTruth = 1 /\ ObsWithinBin(r, kind, a, o, IF evenNewest THEN 60 ELSE 59, 1) THEN "drift:position_where_model_says_none"
       ELSE IF hasTruth = 1 THEN clauseBase \o "_wrong_position_across_nl_bands"
       ELSE "drift:position_where_model_says_none_no_truth"
  ELSE IF IsNone(r) THEN clauseBase \o "_none_although_same_nl_band"
  ELSE IF r.t # "pos" THEN clauseBase \o "_shape"
  ELSE IF PosMatch(r, w) THEN "ok"
  ELSE IF hasTruth = 1 /\ ObsWithinBin(r, kind, a, o, w.N, w.ni) THEN "drift:position_off_lattice_within_bin"
  ELSE IF hasTruth = 1 THEN clauseBase \o "_not_within_one_bin"
  ELSE "drift:position_differs_from_model_no_truth"

\* e.f0 / e.f1: frames as passed (msg0, msg1); e.t0, e.t1; e.truth = <<<<a,o>> of even, <<a,o>> of odd>> when e.ht = 1
AirPair(e) ==
  LET f0 == e.f0  f1 == e.f1
      swap == OE(f0) = 1 /\ OE(f1) = 0
      ev == IF swap THEN f1 ELSE f0
      od == IF swap THEN f0 ELSE f1
      tev == IF swap THEN e.t1 ELSE e.t0
      tod == IF swap THEN e.t0 ELSE e.t1
      evenNewest == tev > tod
      w == GlobalAir(Fld(ev), Fld(od), evenNewest)
      tr == IF e.ht = 1 THEN (IF evenNewest THEN e.truth[1] ELSE e.truth[2]) ELSE <<0, 0>>
  IN  IF OE(f0) = OE(f1) THEN (IF IsErr(e.res) THEN "ok" ELSE "airborne_position_same_parity_not_rejected")
      ELSE JudgePair(e.res, w, "air", e.ht, tr[1], tr[2], evenNewest, "airborne_position")

SurfPair(e) ==   \* documented argument order: msg0 even, msg1 odd
  LET evenNewest == e.t0 > e.t1
      w == GlobalSurf(Fld(e.f0), Fld(e.f1), evenNewest, e.r, e.s)
      tr == IF e.ht = 1 THEN (IF evenNewest THEN e.truth[1] ELSE e.truth[2]) ELSE <<0, 0>>
  IN  JudgePair(e.res, w, "surf", e.ht, tr[1], tr[2], evenNewest, "surface_position")

V_airborne_position(e) == AirPair(e)
V_surface_position(e) == SurfPair(e)

\* the dispatcher: routes by type code, refuses inconsistent pairs and surface pairs without a receiver location
V_position(e) ==
  LET tc0 == TypeCode(e.f0)  tc1 == TypeCode(e.f1) IN
  IF SurfTC(tc0) /\ SurfTC(tc1) THEN
       (IF e.hasref = 0 THEN (IF IsErr(e.res) THEN "ok" ELSE "position_surface_without_reference_not_refused")
        ELSE SurfPair(e))
  ELSE IF (tc0 \in 9..18 /\ tc1 \in 9..18) \/ (tc0 \in 20..22 /\ tc1 \in 20..22) THEN AirPair(e)
  ELSE IF IsErr(e.res) THEN "ok" ELSE "position_tc_guard"

\* local decode: e.frame, reference e.r, e.s, truth e.truth = <<a, o>> when e.ht = 1
LocalJudge(e, kind) ==
  LET f == e.frame
      w == Local(kind, Fld(f), OE(f), e.r, e.s)
      r == e.res
  IN  IF r.t # "pos" THEN "position_with_ref_shape"
      ELSE IF PosMatchModTurn(r, w, kind) THEN "ok"
      ELSE IF e.ht = 1 /\ ObsWithinBin(r, kind, e.truth[1], e.truth[2], w.N, w.ni) THEN "drift:position_off_lattice_within_bin"
      ELSE IF e.ht = 1 THEN "position_with_ref_not_within_one_bin"
      ELSE "drift:position_differs_from_model_no_truth"

\* references that are not on the 2^20 grid: e.rn / e.rd and e.sn / e.sd degrees (whole degrees, zone boundaries k * 90 / ni ...;
\* denominators <= 60).  Local is monotone in each reference coordinate, so when it gives the same answer for the grid points just
\* below and just above the reference, every reference in between must decode to that answer; with a decision boundary in
\* between nothing is demanded.  (One grid step is 45 / 2^17 degree.)
GridLo(n, d) == FloorDiv(n * P17, 45 * d)
GridHi(n, d) == 0 - FloorDiv(0 - n * P17, 45 * d)
V_position_with_ref_frac(e) ==
  LET f == e.frame
      kind == e.kind
      w1 == Local(kind, Fld(f), OE(f), GridLo(e.rn, e.rd), GridLo(e.sn, e.sd))
      w2 == Local(kind, Fld(f), OE(f), GridHi(e.rn, e.rd), GridHi(e.sn, e.sd))
      r == e.res
  IN  IF r.t # "pos" THEN "position_with_ref_shape"
      ELSE IF w1 # w2 THEN "ok"
      ELSE IF PosMatchModTurn(r, w1, kind) THEN "ok"
      ELSE "position_with_ref_off_grid_reference"

V_airborne_position_with_ref(e) == LocalJudge(e, "air")
V_surface_position_with_ref(e) == LocalJudge(e, "surf")
\* surface pair decoded again with the receiver longitude within a few ulps of every point where the choice among the four
\* longitude candidates flips: e.res.bad = number of probes that raised something other than RuntimeError / returned another shape
V_surface_edge(e) ==
  IF e.res.t = "edge" /\ e.res.bad = 0 THEN "ok" ELSE "position_not_total_next_to_a_decision_boundary"

V_position_with_ref(e) ==
  LET tc == TypeCode(e.frame) IN
  IF SurfTC(tc) THEN LocalJudge(e, "surf")
  ELSE IF AirTC(tc) THEN LocalJudge(e, "air")
  ELSE IF IsErr(e.res) THEN "ok" ELSE "position_with_ref_tc_guard"
=============================================================================
