INIT Init
NEXT Next
INVARIANT Ident
INVARIANT Vel
INVARIANT VelFull
INVARIANT Vr
INVARIANT Diff
INVARIANT Mov
CHECK_DEADLOCK FALSE
