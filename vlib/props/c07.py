"""C07 - altitude codes, exhaustive.

A: MC_C07: Gillham encoder (built from the reflected-Gray definition) and the decoder invert each other on all
   1280 legal altitudes, the image is exactly the set of M=0,Q=0 codes that decode, unit-distance property,
   Q=1 and M=1 codes, every one of the 8192 codes classified as the property says.
B/C: all 8192 codes x carriers DF0/4/16/20 (random other bits), all 4096 twelve-bit fields x TC 9..18 and 20..22,
   surface TCs, guard cells -> real decoders -> TLC validates each event (TV_Alt).
"""
from .. import gen
from . import c01


def vectors(ctx, lane="P"):
    rng = ctx.rng
    V = []
    for code in range(8192):
        V.append({"fn": "common.altitude", "code": code})
        for df in (0, 4, 16, 20):
            for rep in range(ctx.pick(1, 10)):
                f = gen.rand_frame_df(rng, df)
                if rep == 1:
                    f = [df << 3] + [0] * (len(f) - 1)
                f = gen.set_bits(f, 20, 32, code)
                V.append({"fn": "common.altcode", "frame": f, "code": code, "cs": rng.choice([0, 0, 1, 2 + code])})
                if df == 4 or (df == 20 and code % 16 == 0):
                    V.append({"fn": "surv.altitude", "frame": f, "code": code})
    # other DFs: guards
    for df in range(32):
        for _ in range(3):
            f = gen.rand_frame_df(rng, df)
            V.append({"fn": "common.altcode", "frame": f, "code": gen.get_bits(f, 20, 32)})
            V.append({"fn": "surv.altitude", "frame": f, "code": gen.get_bits(f, 20, 32)})
    for fld in range(4096):
        for tcs in ((9, 18), (20, 22)):
            for rep in range(ctx.pick(1, 12)):
                tc = rng.randint(*tcs) if rep else tcs[0] + (fld % (tcs[1] - tcs[0] + 1))
                f = gen.rand_frame_df(rng, rng.choice([17, 17, 18]))
                f = gen.set_bits(f, 33, 37, tc)
                f = gen.set_bits(f, 41, 52, fld)
                V.append({"fn": "adsb.altitude", "frame": f, "code": fld, "tc": tc})
                if rep == 0:
                    V.append({"fn": "adsb.altitude05", "frame": f, "code": fld, "tc": tc})
    # sparse backgrounds: the rest of the ME field all zero except one or two bits (every single bit, every pair), for a few
    # altitude fields and every airborne type code - "round" values of the neighbouring fields (a flag plus a power of two)
    import itertools
    rest = [b for b in range(38, 89) if not 41 <= b <= 52]          # frame bits 38..88 outside the altitude field
    pats = [(b,) for b in rest] + list(itertools.combinations(rest, 2))
    for tc in list(range(9, 19)) + [20, 21, 22]:
        for k, pat in enumerate(pats):
            for fld in (rng.choice([0x001, 0x015, 0x7FF, 0xC38, 0xFFF]), rng.randrange(1, 4096)):
                f = gen.rand_frame_df(rng, 17)
                f = gen.set_bits(f, 33, 88, 0)
                f = gen.set_bits(f, 33, 37, tc)
                for b in pat:
                    f = gen.set_bits(f, b, b, 1)
                f = gen.set_bits(f, 41, 52, fld)
                V.append({"fn": "adsb.altitude", "frame": f, "code": fld, "tc": tc})
    for tc in range(32):
        for _ in range(ctx.pick(4, 40)):
            for df in (17, 18, 17, 20, 4, 11):
                f = gen.rand_frame_df(rng, df)
                if len(f) == 14:
                    f = gen.set_bits(f, 33, 37, tc)
                V.append({"fn": "adsb.altitude", "frame": f, "code": -1, "tc": tc})
                V.append({"fn": "adsb.altitude05", "frame": f, "code": -1, "tc": tc})
    for kind in ("adsb", "df20"):
        for ts, msg, ic in gen.sample_frames(kind)[:ctx.pick(500, 100000)]:
            f = list(bytes.fromhex(msg))
            if kind == "adsb":
                V.append({"fn": "adsb.altitude", "frame": f, "code": -2, "tc": f[4] >> 3})
            else:
                V.append({"fn": "common.altcode", "frame": f, "code": gen.get_bits(f, 20, 32)})
    return V


def case_of(e):
    return (e["fn"], e["code"], e["frame"][0] >> 3 if "frame" in e else -1, e.get("tc", -1))


def run(ctx):
    ctx.defer_guards = True
    ctx.rule = ("all 8192 13-bit codes via common.altitude and via DF0/4/16/20 carriers with random other bits; all 4096 "
                "12-bit fields under TC 9-18 and TC 20-22; surface and guard cells; recorded traffic. "
                "distinct = (fn, code, DF, TC)")
    ctx.exhaustive = True
    ctx.model_check("MC_C07", cfg="MC_C07.cfg", what="C07 altitude codecs")
    ctx.check_events(vectors(ctx), case_of=case_of)


replay = c01.replay
