"""C03 - airborne CPR global decode recovers the encoded position.

A: MC_CPR (Mode = "air"): for positions dense around all 58 NL transitions (both hemispheres), band interiors, the
   equator, poles, +-87, lon 0 / +-90 / +-180 and zone edges, displacements up to ~1 NM, both time orders:
   GlobalAir(Encode(p0,even), Encode(p1,odd)) is within one bin of the newer position, or None exactly when the
   two frames' NL differ.  The model's integer arithmetic is exact (no floating point).
B: the dumped cases as DF17/18 frames (TC 9-18 / 20-22, other bits random) -> position()/airborne_position() with both
   argument orders and both time orders (ints and datetimes), same-parity pairs.
C: every call validated by TLC (TV_CPR.AirPair: exact lattice point expected; the property's own within-one-bin
   predicate decides VIOLATION vs MODEL-DRIFT), plus recorded even/odd pairs of the same aircraft (no ground truth).
"""
from .. import gen, cprgen
from . import c01


def vectors(ctx, states):
    rng = ctx.rng
    V = []
    k = 0
    for c in states:
        k += 1
        tc0, tc1 = cprgen.air_tc_pair(rng, k)
        fe = cprgen.frame(rng, tc0, 0, c["e0"]["yz"], c["e0"]["xz"])
        fo = cprgen.frame(rng, tc1, 1, c["e1"]["yz"], c["e1"]["xz"])
        truth = [[c["a0"], c["o0"]], [c["a1"], c["o1"]]]
        combos = [(0, 0), (0, 1), (1, 0), (1, 1)]            # (swap args?, even newest?)
        if ctx.quick:
            combos = [combos[k % 4], combos[(k + 1 + (k // 4) % 3) % 4]]
        for swap, evn in combos:
            te, to = (2 + k % 7, 1) if evn else (1, 1 + (k % 3))   # ties (te == to) count as 'odd newest'
            # stamp resolution and representation are drawn independently of everything else (no aliasing between the case
            # counter's residues): quarter-second stamps put both frames inside one whole second; dt: 0 numbers, 1 naive
            # datetimes, 2 aware datetimes from two time zones, 3 numpy scalars
            tq = 1 if rng.random() < 0.25 else 0
            if tq:
                te, to = (4 * 7 + 3, 4 * 7 + 1) if evn else (4 * 7 + 1, 4 * 7 + 1 + (k % 3))
            f0, f1, t0, t1 = (fo, fe, to, te) if swap else (fe, fo, te, to)
            fn = "adsb.position" if (k + swap) % 2 else "adsb.airborne_position"
            V.append({"fn": fn, "f0": f0, "f1": f1, "t0": t0, "t1": t1, "ht": 1, "truth": truth, "kind": "air",
                      "hasref": 0, "r": 0, "s": 0, "dt": rng.choice([0, 0, 0, 0, 0, 0, 1, 1, 2, 3]), "tq": tq,
                      "case": [c["a0"], c["o0"], c["a1"] - c["a0"], c["o1"] - c["o0"], swap, evn]})
        if k % 9 == 0:   # same parity must be refused
            V.append({"fn": "adsb.position" if k % 2 else "adsb.airborne_position", "f0": fe, "f1": fe, "t0": 1, "t1": 2,
                      "ht": 0, "truth": truth, "kind": "air", "hasref": 0, "r": 0, "s": 0, "dt": 0,
                      "case": [c["a0"], c["o0"], "same"]})
        if k % 40 == 0:  # mixed families / non-position type codes through the dispatcher
            fx = gen.set_bits(fo, 33, 37, rng.choice([20, 19, 4, 28, 0, 31]) if tc1 < 19 else rng.choice([9, 18, 19]))
            V.append({"fn": "adsb.position", "f0": fe, "f1": fx, "t0": 1, "t1": 2, "ht": 0, "truth": truth, "kind": "air",
                      "hasref": 0, "r": 0, "s": 0, "dt": 0, "case": [c["a0"], c["o0"], "mixed", fx[4] >> 3]})
    # recorded traffic: even/odd pairs of one aircraft within 10 s (no ground truth: model agreement only)
    last = {}
    n = 0
    for ts, msg, ic in gen.sample_frames("adsb"):
        f = list(bytes.fromhex(msg))
        tc = f[4] >> 3
        if not (9 <= tc <= 18):
            continue
        oe = gen.get_bits(f, 54, 54)
        other = last.get((ic, 1 - oe))
        if other and abs(other[0] - ts) <= 10:
            n += 1
            V.append({"fn": "adsb.position", "f0": f, "f1": other[1], "t0": ts - 1457996000, "t1": other[0] - 1457996000,
                      "ht": 0, "truth": [[0, 0], [0, 0]], "kind": "air", "hasref": 0, "r": 0, "s": 0, "dt": 0,
                      "case": ["sample", n]})
        last[(ic, oe)] = (ts, f)
        if n >= ctx.pick(300, 5000):
            break
    return V


def case_of(e):
    return (e["fn"], tuple(e["case"]))


def run(ctx):
    ctx.defer_guards = True
    ctx.rule = ("positions: +-4 (quick) / +-7 (thorough) BAM24 steps around each of the 58 NL transitions in both hemispheres "
                "(quick: every 4th anchor, rotated by seed), band midpoints, equator, poles, seeded latitudes; 12+ longitudes "
                "(0, +-90, +-180, zone edges, seeded); 7 displacements <= 1 NM; both time orders, both argument orders, "
                "int and datetime stamps; distinct = (fn, a, o, da, do, swap, newest)")
    ctx.assumptions += ["positions are binary angles of 360/2^24 degree; observed floats are projected onto the CPR lattice "
                        "with tolerance 1e-4 lattice units by the harness (vlib/enc.py pos)"]
    ctx.extra["model_cases"] = 0
    for phase in cprgen.phases(ctx):
        states = cprgen.run_model(ctx, "air", "C03 airborne global decode" + " (anchor shard %d/4)" % phase, phase)
        ctx.extra["model_cases"] += len(states)
        # bounded memory: replay and validate the shard in slices of 25 000 model cases (thorough)
        step = ctx.pick(200000, 25000)
        for lo in range(0, len(states), step):
            ctx.check_events(vectors(ctx, states[lo:lo + step]), case_of=case_of)
        del states


replay = c01.replay
