------------------------------ MODULE TV_Common -----------------------------
(* Verdicts for the small helpers of the common module (C15: both twins must *)
(* satisfy them) and the totality-only verdict used by C14.                  *)
EXTENDS Surv, Res

\* no exception other than RuntimeError escapes (value or RuntimeError)
V_total(e) == IF IsOtherExc(e.res) THEN "stray_exception" ELSE "ok"

V_df(e) == IF IsInt(e.res, DF(e.frame)) THEN "ok" ELSE "df_value"

\* None in py_common, -1 in c_common
V_typecode(e) ==
  LET tc == TypeCode(e.frame) IN
  IF tc # -1 THEN (IF IsInt(e.res, tc) THEN "ok" ELSE "typecode_value")
  ELSE IF e.lane = "P" THEN (IF IsNone(e.res) THEN "ok" ELSE "typecode_none")
  ELSE IF IsNone(e.res) \/ IsInt(e.res, -1) THEN "ok" ELSE "typecode_none"

V_oe_flag(e) == IF Len(e.frame) = 14 THEN (IF IsInt(e.res, Bit(e.frame, 54)) THEN "ok" ELSE "oe_flag_value") ELSE V_total(e)

\* hex2bin: the frame's bits as '0'/'1' characters
V_hex2bin(e) == IF IsStr(e.res, [k \in 1..(8 * Len(e.frame)) |-> 48 + Bit(e.frame, k)]) THEN "ok" ELSE "hex2bin_bits"

\* data(): characters 9 .. len-6 of the text exactly as passed (e.text)
V_data(e) == IF IsStr(e.res, SubSeq(e.text, 9, Len(e.text) - 6)) THEN "ok" ELSE "data_slice"

V_allzeros(e) == IF IsBool(e.res, \A k \in 5..(Len(e.frame) - 3) : e.frame[k] = 0) THEN "ok" ELSE "allzeros_value"

\* bin2int / hex2int / bin2hex on short strings: e.bits (sequence of 0/1, length <= 30)
V_bin2int(e) == IF IsInt(e.res, IntOfBits(e.bits)) THEN "ok" ELSE "bin2int_value"
V_hex2int(e) == IF IsInt(e.res, IntOfBits(BitsOf(BytesOfText(e.text)))) THEN "ok" ELSE "hex2int_value"
\* bin2hex: upper-case hex without leading zeros ("0" for zero)
HexNoLead(v) ==
  LET RECURSIVE H(_) H(x) == IF x = 0 THEN <<>> ELSE H(x \div 16) \o <<UpperDigit(x % 16)>>
  IN  IF v = 0 THEN <<48>> ELSE H(v)
V_bin2hex(e) == IF IsStr(e.res, HexNoLead(IntOfBits(e.bits))) THEN "ok" ELSE "bin2hex_value"
\* bin2hex of a whole 56 / 112-bit frame (as the demodulator calls it): its hex text without leading zeros
StripZeros(t) ==
  LET RECURSIVE S(_) S(k) == IF k >= Len(t) THEN k ELSE IF t[k] = 48 THEN S(k + 1) ELSE k
      k0 == S(1)
  IN  SubSeq(t, k0, Len(t))
V_bin2hex_frame(e) == IF IsStr(e.res, StripZeros(TextOfBytes(e.frame))) THEN "ok" ELSE "bin2hex_frame_value"

\* floor(x): x = e.num / e.den
V_floor(e) == IF IsInt(e.res, FloorDiv(e.num, e.den)) THEN "ok" ELSE "floor_value"

\* gray2alt on an 11-bit Gray string e.code: (500-ft Gray D2 D4 A1 A2 A4 B1 B2 B4)(100-ft C1 C2 C4)
V_gray2alt(e) ==
  LET g500 == e.code \div 8  g100 == e.code % 8
      n500 == GrayToBin(g500)  r == GrayToBin(g100)
      d == IF r \in {0, 5, 6} THEN NoAlt
           ELSE LET s == IF r = 7 THEN 5 ELSE r  n100 == IF n500 % 2 = 1 THEN 6 - s ELSE s
                IN  n500 * 500 + n100 * 100 - 1300
  IN  IF d # NoAlt THEN (IF IsInt(e.res, d) THEN "ok" ELSE "gray2alt_value")
      ELSE IF e.lane = "P" THEN (IF IsNone(e.res) THEN "ok" ELSE "gray2alt_none")
      ELSE IF IsNone(e.res) \/ IsInt(e.res, -1) \/ IsInt(e.res, -999999) THEN "ok" ELSE "gray2alt_none"

\* wrongstatus(data, sb, msb, lsb) on the MB field of e.frame
V_wrongstatus(e) ==
  \* "the field is non-zero" bit by bit: a field may be wider than TLC's 32-bit integers
  IF IsBool(e.res, Bit(e.frame, 32 + e.sb) = 0 /\ (\E k \in (32 + e.msb)..(32 + e.lsb) : Bit(e.frame, k) = 1)) THEN "ok" ELSE "wrongstatus_value"

\* is_icao_assigned: Annex 10 vol III unassigned blocks as coded (open intervals)
Unassigned(a) ==
  \/ (2097152 < a /\ a < 2621439) \/ (2621440 < a /\ a < 2686975) \/ (5242880 < a /\ a < 6291455)
  \/ (6291456 < a /\ a < 6815743) \/ (6815744 < a /\ a < 7274496) \/ (9437184 < a /\ a < 10485759)
  \/ (11534336 < a /\ a < 12582911) \/ (13631488 < a /\ a < 14680063) \/ (15728640 < a /\ a < 16777215)
V_is_icao_assigned(e) == IF IsBool(e.res, ~Unassigned(e.addr)) THEN "ok" ELSE "is_icao_assigned_value"

\* tell(): prints; returns None; RuntimeError tolerated, nothing else
V_tell(e) == IF IsNone(e.res) \/ IsErr(e.res) THEN "ok" ELSE "tell_stray_exception"
=============================================================================
