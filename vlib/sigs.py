"""Signature predicates for known findings (see known_findings.json).  Each accepts only the narrow failing class it names."""
from .findings import sig


def _is_subseq(small, big):
    it = iter(big)
    return all(any(x == y for y in it) for x in small)


@sig("c19_spurious_short_frame_from_noise")
def c19_spurious(case, clause):
    """_process_buffer returns every modulated frame, in order, plus extra SHORT frames of a format without checksum
    (DF4/5/11) sliced out of noise, in a buffer whose noise peaks reach 0.2 absolute (the preamble template's tolerance)."""
    if clause != "demod_wrong_or_extra_frames" or case.get("fn") != "demod" or case.get("cls") != "ten_db":
        return False
    res = case.get("res", {})
    if res.get("t") != "frames":
        return False
    got = ["".join(chr(c) for c in t) for t in res["v"]]
    sent = [bytes(f).hex().upper() for f in case.get("sent", [])]
    if not _is_subseq(sent, got) or len(got) <= len(sent):
        return False
    extra = list(got)
    for s in sent:
        extra.remove(s)
    noise_peak = case["case"][3] if len(case.get("case", [])) > 3 else 0
    return noise_peak >= 200 and all(len(x) == 14 and (int(x[:2], 16) >> 3) in (4, 5, 11) for x in extra)
