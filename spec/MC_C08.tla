------------------------------- MODULE MC_C08 -------------------------------
(* Role A for C08: surveillance reply fields and the DF11 interrogator-code  *)
(* overlay round-trip through the frame builder of the spec.                 *)
EXTENDS Surv, TLC

VARIABLE j

\* a DF4/5 (56-bit) or DF20/21 (112-bit, MB = pattern) reply with the given header fields
BuildSurv(df, fs, dr, iis, ids, c13, addr) ==
  LET hdr == FromInt(df, 5) \o FromInt(fs, 3) \o FromInt(dr, 5) \o FromInt(iis, 4) \o FromInt(ids, 2) \o FromInt(c13, 13)
      mb == IF df >= 16 THEN [k \in 1..56 |-> (k * 7 + c13) % 2] ELSE <<>>
  IN  BuildAP(BytesOf(hdr \o mb), addr)

Init == j \in ([k : {"surv"}, df : {4, 5, 20, 21}, fs : 0..7, dr : 0..31]
               \cup [k : {"ic"}, ca : 0..7, addr : {0, 1, 4840952, 16777215}])
Next == UNCHANGED j /\ FALSE

SurvRoundTrip == j.k = "surv" => \A iis \in 0..15, ids \in 0..3 :
   LET c13 == (j.fs * 1021 + j.dr * 37 + iis * 5 + ids) % 8192
       f == BuildSurv(j.df, j.fs, j.dr, iis, ids, c13, 11259375)
   IN  /\ DF(f) = j.df /\ LengthOK(f)
       /\ FS(f) = j.fs /\ DR(f) = j.dr /\ IIS(f) = iis /\ IDS(f) = ids /\ AC13(f) = c13
       /\ IcaoInt(f) = 11259375

Overlays == 0..127 \cup {Pow2(k) : k \in 7..23} \cup {Pow2(k) + 5 : k \in 7..23}
ICRoundTrip == j.k = "ic" => \A ov \in Overlays :
   LET f == BuildDF11(j.ca, j.addr, ov)
   IN  /\ DF(f) = 11 /\ LengthOK(f) /\ CA(f) = j.ca /\ AA(f) = j.addr
       /\ ByteRem(f) = ov
       \* 80 legal codes: II 0..15 (CL = 0), SI (CL-1)*16+IC for CL 1..4; everything else is corrupt
       /\ (ov <= 79 <=> ICText(ov)[2] = 73)
=============================================================================
