"""pytest plugin (lives in /verif, nothing is added to /repo):  pytest -p vlib.record_plugin ...
Wraps the public decoder functions while the repository's own test-suite runs and records every top-level call with its
result as an event (NDJSON, file named by VERIF_RECORD) in the same format the replay worker produces, so that the
recording can be validated by TLC like any other trace: the existing tests, with the spec's assertions instead of theirs."""
import json
import os

_DEPTH = [0]
_OUT = []


def _frame(msg):
    return list(bytes.fromhex(msg))


def _grid(x):
    return round(float(x) * 1048576 / 360)


def _event(name, args, kwargs, res):
    from vlib import enc, calls
    mod, fn = name.split(".", 1)
    e = {"fn": name, "lane": "P", "src": "suite"}
    try:
        if name in ("adsb.position", "adsb.airborne_position", "adsb.surface_position"):
            a = list(args) + [None] * 6
            e.update({"f0": _frame(a[0]), "f1": _frame(a[1]), "ht": 0, "truth": [[0, 0], [0, 0]], "dt": 0})
            t0, t1 = a[2], a[3]
            if not (isinstance(t0, (int, float)) and isinstance(t1, (int, float))):
                return None
            e["t0"], e["t1"] = (2, 1) if t0 > t1 else (1, 2) if t1 > t0 else (1, 1)
            lat, lon = (a[4], a[5]) if name != "adsb.airborne_position" else (None, None)
            lat = kwargs.get("lat_ref", lat)
            lon = kwargs.get("lon_ref", lon)
            e["hasref"] = 0 if lat is None or lon is None else 1
            e["r"], e["s"] = (_grid(lat), _grid(lon)) if e["hasref"] else (0, 0)
            tc = _frame(a[0])[4] >> 3
            e["kind"] = "surf" if 5 <= tc <= 8 else "air"
            e["res"] = enc.pos(res, e["kind"]) if not isinstance(res, BaseException) else enc.exc(res)
            return e
        if name.endswith("position_with_ref"):
            f = _frame(args[0])
            tc = f[4] >> 3
            kind = "surf" if (5 <= tc <= 8 or name == "adsb.surface_position_with_ref") else "air"
            e.update({"frame": f, "r": _grid(args[1]), "s": _grid(args[2]), "ht": 0, "truth": [0, 0], "kind": kind})
            e["res"] = enc.pos(res, kind) if not isinstance(res, BaseException) else enc.exc(res)
            return e
        if not args or not isinstance(args[0], str):
            return None
        msg = args[0]
        if len(msg) not in (14, 28):
            return None
        e["frame"] = _frame(msg)
        den = None
        if mod == "adsb":
            den = calls._ADSB_DEN.get(fn)
        elif mod == "commb":
            den = calls.COMMB_DEN.get(fn)
        if fn in ("velocity", "airborne_velocity", "surface_velocity"):
            src = bool(kwargs.get("source", args[1] if len(args) > 1 else False))
            e["src"] = 1 if src else 0
        if fn == "sil":
            v = kwargs.get("version", args[1] if len(args) > 1 else None)
            e["version"] = -1 if v is None else v
        if fn == "nic_v1":
            e["nics"] = args[1]
        if fn == "nic_v2":
            e["nica"], e["nicbc"] = args[1], args[2]
        if fn == "infer":
            e["mrar"] = 1 if kwargs.get("mrar", args[1] if len(args) > 1 else False) else 0
        if fn == "crc":
            e["enc"] = 1 if kwargs.get("encode", args[1] if len(args) > 1 else False) else 0
            e["cs"] = 0
        if fn in ("icao",):
            e["text"] = enc.text(msg)
            e["rel"] = 0
        if fn == "data":
            e["text"] = enc.text(msg)
        if fn in ("hex2int", "bin2int") and isinstance(res, int) and not isinstance(res, bool) and abs(res) > enc.LIM:
            # an integer conversion of a whole payload (an internal use of the helper, recorded because its caller is not a
            # wrapped name): the value does not fit TLC's 32-bit integers, the event is not judged (C15 states the same bound)
            return None
        e["res"] = enc.res(res, den) if not isinstance(res, BaseException) else enc.exc(res)
        return e
    except Exception:  # noqa: BLE001 - an argument shape we do not model: skip the call
        return None


def _wrap(modname, name, f):
    full = modname + "." + name

    def g(*a, **k):
        top = _DEPTH[0] == 0
        _DEPTH[0] += 1
        try:
            try:
                r = f(*a, **k)
            except Exception as ex:  # noqa: BLE001
                if top:
                    e = _event(full, a, k, ex)
                    if e:
                        _OUT.append(e)
                raise
            if top:
                e = _event(full, a, k, r)
                if e:
                    _OUT.append(e)
            return r
        finally:
            _DEPTH[0] -= 1
    g.__wrapped__ = f
    g.__name__ = getattr(f, "__name__", name)
    return g


def pytest_configure(config):
    import pyModeS
    from pyModeS import py_common
    from pyModeS.decoder.bds import bds06
    from vlib import calls
    known = set(calls.CALLS)
    targets = [("adsb", pyModeS.adsb), ("commb", pyModeS.commb), ("surv", pyModeS.surv), ("allcall", pyModeS.allcall),
               ("common", py_common), ("bds", pyModeS.bds)]
    for modname, mod in targets:
        for name in dir(mod):
            f = getattr(mod, name)
            if not callable(f) or name.startswith("_") or isinstance(f, type):
                continue
            full = modname + "." + name
            if (full in known and full != "bds.is50or60") or (modname == "bds" and name == "infer"):
                setattr(mod, name, _wrap(modname, name, f))
    # bds06.surface_position is called through its module in one test
    bds06.surface_position = _wrap("adsb", "surface_position", bds06.surface_position)


def pytest_unconfigure(config):
    path = os.environ.get("VERIF_RECORD")
    if path:
        with open(path, "w") as fh:
            for e in _OUT:
                fh.write(json.dumps(e, separators=(",", ":")) + "\n")
