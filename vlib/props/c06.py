"""C06 - cprNL equals the DO-260B NL function.

A: MC_C06: sanity of the generated table (strictly decreasing transitions, T_2 = 87, T_59 = 10.4704713...), NL on the
   whole 0.0005-degree grid: 59 at 0, even, non-increasing, 2 up to and including 87, 1 beyond.
B/C: the grid latitudes, float neighbourhoods of all 58 transitions (offsets 2e-9 ... 9e-4 on both sides, both signs),
   of 0, +-87, +-90, and seeded random latitudes -> common.cprNL -> TLC (TV_CPR.V_cprNL on exact limbs of the float).
"""
import math
import os
import re

from .. import enc
from . import c01

SPEC = os.path.join(os.path.dirname(os.path.dirname(os.path.dirname(os.path.abspath(__file__)))), "spec")


def transitions():
    txt = open(os.path.join(SPEC, "NLTable.tla")).read()
    blk = txt[txt.index("TransLat =="):txt.index("ThrAir60")]
    out = {}
    for k, a, b in re.findall(r"(\d+) :> <<(\d+), (\d+)>>", blk):
        out[int(k)] = (int(a) * 10 ** 9 + int(b)) / 1e15
    return out


def vectors(ctx):
    rng = ctx.rng
    T = transitions()
    xs = []
    step = ctx.pick(8, 1)
    for k in range(0, 180001, 1):
        near = False
        lat = k * 0.0005
        if k % step == 0:
            near = True
        else:
            for t in T.values():
                if abs(lat - t) < 0.012:
                    near = True
                    break
        if near:
            xs.append(("grid", lat))
            xs.append(("grid", -lat))
    offs = [2e-9, 1e-8, 1e-7, 1e-6, 1e-5, 1e-4, 4e-4, 8e-4, 9e-4, 1.5e-3]
    for k, t in T.items():
        for sgn in (1, -1):
            xs.append(("trans", sgn * t))
            for o in offs:
                xs.append(("trans", sgn * (t + o)))
                xs.append(("trans", sgn * (t - o)))
            # log-spaced distances from the transition, from 1e-13 to 1e-4 degree, ten per decade on either side (between the
            # few-ulp neighbours and the coarse offsets above; within 1e-9 the verdict accepts either value, the comparison of
            # the C and the Python twin in C15 does not)
            for j in range(0, 91):
                o = 10.0 ** (-13 + j / 10.0)
                xs.append(("translog", sgn * (t + o)))
                xs.append(("translog", sgn * (t - o)))
            x = t
            y = t
            for _ in range(4):
                x = math.nextafter(x, 100.0)
                y = math.nextafter(y, -100.0)
                xs.append(("ulp", sgn * x))
                xs.append(("ulp", sgn * y))
    # the single-precision neighbours of every transition (values a caller holding float32 arrays passes; as Python floats here)
    import numpy as np
    for k, t in T.items():
        f = np.float32(t)
        up, dn = f, f
        for _ in range(4):
            for sgn in (1, -1):
                xs.append(("f32", sgn * float(up)))
                xs.append(("f32", sgn * float(dn)))
            up = np.nextafter(up, np.float32(100.0))
            dn = np.nextafter(dn, np.float32(-100.0))
    # log-dense neighbourhoods of the special latitudes (100 points per decade from 1e-12 to 1e-2 degree off 0, +-87, +-90):
    # a tolerance or a guard written in the wrong unit shows up as a narrow band next to one of them
    for j in range(0, 1001):
        d = 10.0 ** (-12 + j / 100.0)
        for sgn in (1, -1):
            xs.append(("log0", sgn * d))
            xs.append(("log87", sgn * (87.0 - d)))
            xs.append(("log87", sgn * (87.0 + d)))
            xs.append(("log90", sgn * (90.0 - d)))
    for c in (0.0, 87.0, 90.0):
        for sgn in (1, -1):
            x = sgn * c
            xs.append(("special", x))
            up, dn = x, x
            for _ in range(3):
                up = math.nextafter(up, 100.0)
                dn = math.nextafter(dn, -100.0)
                if abs(up) <= 90:
                    xs.append(("special", up))
                if abs(dn) <= 90:
                    xs.append(("special", dn))
    for _ in range(ctx.pick(20000, 1500000)):
        xs.append(("rand", rng.uniform(-90, 90)))
    for _ in range(ctx.pick(3000, 300000)):
        xs.append(("rand87", rng.choice([1, -1]) * rng.uniform(86.99, 87.01)))
    V = []
    for tag, x in xs:
        V.append({"fn": "common.cprNL", "x": x, "lat": enc.lat_limbs(x), "tag": tag})
    return V


def case_of(e):
    return (e["lat"][0], e["lat"][1], e["lat"][2])


def run(ctx):
    ctx.rule = ("latitudes: the 0.0005-degree grid on [-90,90] (quick: every 8th point plus all points within 0.012 degree of a "
                "transition), offsets 2e-9..1.5e-3 and +-4 ulp around each of the 58 transitions in both hemispheres, "
                "neighbourhoods of 0, +-87, +-90, seeded random latitudes (extra density in [86.99, 87.01]); "
                "distinct = distinct float values")
    ctx.assumptions += ["transition latitudes generated with mpmath (50 digits) from the DO-260B formula; floats are converted "
                        "to exact limbs (micro-degree, 1e-15 degree) with fractions.Fraction"]
    ctx.model_check("MC_C06", cfg="MC_C06.cfg", what="C06 NL table")
    ctx.check_events(vectors(ctx), case_of=case_of)


replay = c01.replay
