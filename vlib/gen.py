"""Shared vector-generation helpers (frames, CRC for building *inputs*, sample data)."""
import csv
import os

from .lanes import REPO

GEN = 0x1FFF409


def rem(bs):
    """Remainder of the frame polynomial mod G (bit-serial; used only to BUILD valid test frames --
    the oracle for results is the TLA+ spec, never this function)."""
    r = 0
    for b in bs:
        for k in range(7, -1, -1):
            r = (r << 1) | ((b >> k) & 1)
            if r & 0x1000000:
                r ^= GEN
    return r


def parity(data):
    return rem(bytes(data) + b"\0\0\0")


def with_parity(data, overlay=0):
    p = parity(data) ^ overlay
    return list(data) + [p >> 16, (p >> 8) & 255, p & 255]


def rand_frame(rng, n=None):
    if n is None:
        n = 14 if rng.random() < 0.6 else 7
    f = [rng.randrange(256) for _ in range(n)]
    if rng.random() < 0.06:
        f = plant(rng, f, 0, n, aligned=(1, 4, n - 3))       # one frame in sixteen carries a constant mined from the source
    return f


def rand_frame_df(rng, df, n=None):
    """random content with a given DF (length consistent with it unless n given)."""
    if n is None:
        n = 14 if df >= 16 else 7
    f = [rng.randrange(256) for _ in range(n)]
    u = rng.random()
    if u < 0.06:
        f = plant(rng, f, 1, n, aligned=(1, 4, n - 3))
    elif u < 0.10:
        # self-similar: the last 24 bits (parity / address-parity) repeat six hex digits from earlier in the frame - decoders
        # that cut the frame up by searching for a substring trip over these; value decoders ignore the field anyway
        h = bytes(f).hex()
        k = rng.randrange(2, 2 * n - 11)
        f = list(bytes.fromhex(h[:2 * n - 6] + h[k:k + 6]))
    f[0] = (df << 3) | (f[0] & 7)
    return f


def selfsimilar(rng, df, n=None):
    """frames whose last three bytes (the parity / address-parity field) repeat an earlier part of the same frame, byte- or
    nibble-aligned, for every position: any 24 bits are a legitimate AP field for SOME address, so these are ordinary frames -
    but text-level shortcuts (replace / find / split on a substring of the message) trip over them"""
    if n is None:
        n = 14 if df >= 16 else 7
    out = []
    for k in range(0, 2 * (n - 3) - 5):                   # nibble offset of the copied 6-digit group
        f = rand_frame_df(rng, df, n)
        h = bytes(f).hex()
        h = h[:2 * n - 6] + h[k:k + 6]
        out.append(list(bytes.fromhex(h)))
    return out


def selfsim_tail(rng, f, prob=0.12):
    """with probability `prob`: copy of the finished 14-byte frame `f` whose last 24 bits repeat six consecutive hex digits of
    its own ME / MB field (any nibble offset) - to be applied AFTER the payload has been written"""
    if len(f) != 14 or rng.random() >= prob:
        return f
    h = bytes(f).hex()
    k = rng.randrange(8, 17)
    return list(bytes.fromhex(h[:22] + h[k:k + 6]))


def solve_tail(data, target):
    """the last three bytes of `data` (a byte list whose final 24 bits are free, e.g. the AA field of a DF11 reply) chosen so
    that parity(data) == target: the CRC is linear, so this is a 24 x 24 system over GF(2); None if it is singular"""
    n = len(data)
    base = list(data[:n - 3]) + [0, 0, 0]
    p0 = parity(base)
    cols = []
    for b in range(24):
        d = list(base)
        d[n - 3 + b // 8] |= 0x80 >> (b % 8)
        cols.append(parity(d) ^ p0)
    want = target ^ p0
    # Gaussian elimination on the 24 column vectors
    rows = [(cols[b], 1 << b) for b in range(24)]
    sol = 0
    basis = []
    for vec, tag in rows:
        for bv, bt in basis:
            if vec & (bv & -bv):
                vec ^= bv
                tag ^= bt
        if vec:
            basis.append((vec, tag))
    for bv, bt in sorted(basis, key=lambda x: -(x[0] & -x[0])):
        pass
    # reduce `want` with the basis (each basis vector has a distinct lowest set bit after the loop above only approximately:
    # do a proper reduction)
    red = []
    for bv, bt in basis:
        for rv, rt in red:
            if bv & (rv & -rv):
                bv ^= rv
                bt ^= rt
        if bv:
            red = [((rv ^ bv) if rv & (bv & -bv) else rv, (rt ^ bt) if rv & (bv & -bv) else rt) for rv, rt in red]
            red.append((bv, bt))
    for rv, rt in red:
        if want & (rv & -rv):
            want ^= rv
            sol ^= rt
    if want:
        return None
    out = list(base)
    for b in range(24):
        if sol >> b & 1:
            out[n - 3 + b // 8] |= 0x80 >> (b % 8)
    return out


def set_bits(frame, msb, lsb, value):
    """return copy of byte list with bits msb..lsb (1-based inclusive) set to value."""
    f = list(frame)
    w = lsb - msb + 1
    for k in range(w):
        bit = (value >> (w - 1 - k)) & 1
        pos = msb - 1 + k
        byte, off = divmod(pos, 8)
        mask = 0x80 >> off
        f[byte] = (f[byte] | mask) if bit else (f[byte] & ~mask & 255)
    return f


def get_bits(frame, msb, lsb):
    v = 0
    for pos in range(msb - 1, lsb):
        byte, off = divmod(pos, 8)
        v = (v << 1) | ((frame[byte] >> (7 - off)) & 1)
    return v


_SAMPLES = {}


def sample_frames(kind):
    """frames from the repository's recorded sample traffic: kind 'adsb' | 'df20' | 'df21'
    -> list of (ts:int, hex msg, icao hex from the file's own address column)."""
    if kind in _SAMPLES:
        return _SAMPLES[kind]
    fn = {"adsb": "sample_data_adsb.csv", "df20": "sample_data_commb_df20.csv",
          "df21": "sample_data_commb_df21.csv"}[kind]
    out = []
    path = os.path.join(REPO, "tests", "data", fn)
    if os.path.exists(path):
        with open(path, encoding="utf-8-sig") as f:
            for row in csv.reader(f):
                msg = [c for c in row if len(c) in (14, 28) and all(x in "0123456789abcdefABCDEF" for x in c)]
                ic = [c for c in row if len(c) == 6 and all(x in "0123456789abcdefABCDEF" for x in c)]
                if not msg:
                    continue
                try:
                    ts = int(float(row[0]))
                except ValueError:
                    ts = 0
                out.append((ts, msg[0], ic[0] if ic else ""))
    _SAMPLES[kind] = out
    return out


# ---- constants mined from the source under test (a fuzzing dictionary) ----
_DICT = {}


def source_dictionary(sub=""):
    """Byte strings that occur as literals in the working tree's library source (optionally only files whose path contains
    `sub`): lists / tuples of small integers, bytes literals, hex-looking strings, integers above 255 (big-endian).  A special
    case keyed on a magic value can only be written with that value in the source; planting the mined values into the
    generated inputs - at every field position - makes such special cases reachable without knowing them in advance.
    Read from /repo's current working tree at run time (VERIF_REPO for scratch trees)."""
    if sub in _DICT:
        return _DICT[sub]
    import ast
    import re
    toks = set()
    root = os.path.join(REPO, "src", "pyModeS")
    for d, _, files in os.walk(root):
        for fn in files:
            path = os.path.join(d, fn)
            if sub not in path:
                continue
            try:
                src = open(path, encoding="utf-8", errors="replace").read()
            except OSError:
                continue
            if fn.endswith(".py"):
                try:
                    tree = ast.parse(src)
                except SyntaxError:
                    continue
                for node in ast.walk(tree):
                    if isinstance(node, (ast.List, ast.Tuple)) and 2 <= len(node.elts) <= 16 and all(
                            isinstance(x, ast.Constant) and isinstance(x.value, int) and not isinstance(x.value, bool) and 0 <= x.value <= 255
                            for x in node.elts):
                        toks.add(bytes(x.value for x in node.elts))
                    elif isinstance(node, ast.Constant):
                        v = node.value
                        if isinstance(v, bytes) and 2 <= len(v) <= 16:
                            toks.add(v)
                        elif isinstance(v, str) and 4 <= len(v) <= 32 and len(v) % 2 == 0 and re.fullmatch(r"[0-9a-fA-F]+", v):
                            toks.add(bytes.fromhex(v))
                        elif isinstance(v, int) and not isinstance(v, bool) and 255 < v < (1 << 64):
                            toks.add(v.to_bytes((v.bit_length() + 7) // 8, "big"))
            elif fn.endswith(".pyx"):
                for m in re.finditer(r"0[xX]([0-9a-fA-F]{3,16})\b", src):
                    h = m.group(1)
                    toks.add(bytes.fromhex(h if len(h) % 2 == 0 else "0" + h))
                for m in re.finditer(r"[\"']([0-9a-fA-F]{4,32})[\"']", src):
                    if len(m.group(1)) % 2 == 0:
                        toks.add(bytes.fromhex(m.group(1)))
    out = sorted(t for t in toks if any(t))
    _DICT[sub] = out
    return out


def plant(rng, frame, lo=0, hi=None, sub="", aligned=()):
    """copy of `frame` (list of byte values) with one mined constant written at a byte offset inside [lo, hi): one of the field
    starts in `aligned` (two times out of three, when given) or any offset"""
    d = source_dictionary(sub)
    f = list(frame)
    if not d:
        return f
    hi = len(f) if hi is None else hi
    t = d[rng.randrange(len(d))]
    if len(t) > hi - lo:
        t = t[:hi - lo]
    at = rng.randrange(lo, hi - len(t) + 1)
    ok = [a for a in aligned if lo <= a <= hi - len(t)]
    if ok and rng.random() < 0.67:
        at = ok[rng.randrange(len(ok))]
    f[at:at + len(t)] = list(t)
    return f
