------------------------------- MODULE TV_Alt -------------------------------
(* Verdicts for altitude codes (C07) and identity / surveillance fields (C08) *)
EXTENDS Surv, Res

\* decoded altitude or "none"; the C module's sentinels stand for None (C15)
AltRes(e, d) ==
  IF d # NoAlt THEN IsInt(e.res, d)
  ELSE IF e.lane = "P" THEN IsNone(e.res)
  ELSE IsNone(e.res) \/ IsInt(e.res, -999999) \/ IsInt(e.res, -1)

V_common_altitude(e) == IF AltRes(e, DecodeAC13(e.code)) THEN "ok" ELSE "ac13_value"

V_altcode(e) ==
  LET f == e.frame IN
  IF DF(f) \in {0, 4, 16, 20} THEN (IF AltRes(e, DecodeAC13(AC13(f))) THEN "ok" ELSE "altcode_value")
  ELSE IF IsErr(e.res) THEN "ok" ELSE "altcode_df_guard"

V_surv_altitude(e) ==
  LET f == e.frame IN
  IF DF(f) = 4 THEN (IF AltRes(e, DecodeAC13(AC13(f))) THEN "ok" ELSE "surv_altitude_value")
  ELSE IF IsErr(e.res) THEN "ok" ELSE "surv_altitude_df_guard"

\* adsb.altitude (surface -> 0) and bds05.altitude (surface -> RuntimeError)
AdsbAlt(e, surface0) ==
  LET f == e.frame  tc == TypeCode(f) IN
  IF tc >= 9 /\ tc <= 18 THEN
       LET d == DecodeAC12(MEField(f, 9, 20)) IN
       IF d # NoAlt THEN (IF IsInt(e.res, d) THEN "ok" ELSE "adsb_altitude_baro_value")
       ELSE IF IsNone(e.res) THEN "ok"
       ELSE "adsb_altitude_none_for_invalid_code"
  ELSE IF tc >= 20 /\ tc <= 22 THEN
       (IF NumEq(e.res, MEField(f, 9, 20) * 82021, 25000) THEN "ok" ELSE "adsb_altitude_gnss_metres")
  ELSE IF tc >= 5 /\ tc <= 8 /\ surface0 THEN
       (IF NumEq(e.res, 0, 1) THEN "ok" ELSE "adsb_altitude_surface_zero")
  ELSE IF IsErr(e.res) THEN "ok" ELSE "adsb_altitude_tc_guard"

V_adsb_altitude(e) == AdsbAlt(e, TRUE)
V_altitude05(e) == AdsbAlt(e, FALSE)

V_squawk(e) == IF IsStr(e.res, SquawkText(e.code)) THEN "ok" ELSE "squawk_digits"

V_idcode(e) ==
  LET f == e.frame IN
  IF DF(f) \in {5, 21} THEN (IF IsStr(e.res, SquawkText(ID13(f))) THEN "ok" ELSE "idcode_digits")
  ELSE IF IsErr(e.res) THEN "ok" ELSE "idcode_df_guard"

V_surv_identity(e) ==
  LET f == e.frame IN
  IF DF(f) = 5 THEN (IF IsStr(e.res, SquawkText(ID13(f))) THEN "ok" ELSE "identity_digits")
  ELSE IF IsErr(e.res) THEN "ok" ELSE "identity_df_guard"

V_emergency_squawk(e) ==
  LET f == e.frame IN
  IF TypeCode(f) = 28 THEN (IF IsStr(e.res, SquawkText(MEField(f, 12, 24))) THEN "ok" ELSE "emergency_squawk_digits")
  ELSE IF IsErr(e.res) THEN "ok" ELSE "emergency_squawk_tc_guard"

\* (value, description) tuples: the value part is the property; the description must be text or None
TextOrNone(r) == r.t \in {"s", "n"}
FieldTuple(e, vals, n) ==
  /\ IsTup(e.res, n)
  /\ \A k \in 1..Len(vals) : IsInt(e.res.v[k], vals[k])
  /\ \A k \in (Len(vals) + 1)..n : TextOrNone(e.res.v[k])

SurvGuard(e, ok, clause) ==
  IF DF(e.frame) \in {4, 5} THEN (IF ok THEN "ok" ELSE clause)
  ELSE IF IsErr(e.res) THEN "ok" ELSE "surv_df_guard"

V_surv_fs(e) == SurvGuard(e, FieldTuple(e, <<FS(e.frame)>>, 2), "fs_value")
V_surv_dr(e) == SurvGuard(e, FieldTuple(e, <<DR(e.frame)>>, 2), "dr_value")
V_surv_um(e) == SurvGuard(e, FieldTuple(e, <<IIS(e.frame), IDS(e.frame)>>, 3), "um_value")
\* the unguarded twins in py_common (documented for DF4/5/20/21)
V_common_fs(e) == IF FieldTuple(e, <<FS(e.frame)>>, 2) THEN "ok" ELSE "fs_value"
V_common_dr(e) == IF FieldTuple(e, <<DR(e.frame)>>, 2) THEN "ok" ELSE "dr_value"
V_common_um(e) == IF FieldTuple(e, <<IIS(e.frame), IDS(e.frame)>>, 3) THEN "ok" ELSE "um_value"

AllcallGuard(e, ok, clause) ==
  IF DF(e.frame) = 11 THEN (IF ok THEN "ok" ELSE clause)
  ELSE IF IsErr(e.res) THEN "ok" ELSE "allcall_df_guard"

V_capability(e) == AllcallGuard(e, FieldTuple(e, <<CA(e.frame)>>, 2), "capability_value")
V_interrogator(e) == AllcallGuard(e, IsStr(e.res, ICText(ByteRem(e.frame))), "interrogator_code")
=============================================================================
