"""Lane T: the working-tree c_common.pyx EXECUTED through a small transliterator (Cython is not installed here).

Line-based: cimport/decorator lines are dropped, cdef/cpdef signatures become `def`, typed declarations, assignments to
typed C locals, typed arguments and return values go through coercions that implement C semantics for exactly the types
this file uses and the ones a plausible edit would introduce (every C integer width and signedness on LP64, bint, double,
float, memoryviews, fixed arrays, <T> casts, `cdef:` blocks, multi-declarations, `nogil` / `except` suffixes, `DEF`).
Anything it does not recognise raises LaneUnavailable (machinery failure for the C-specific part, never a violation).
Fidelity is established, where the generated C is fresh, by requiring lanes T and B to agree on every vector."""
import array
import math
import re
import types

from .lanes import LaneUnavailable

_INTS = {"char": (8, True), "signed char": (8, True), "unsigned char": (8, False), "short": (16, True), "unsigned short": (16, False),
         "int": (32, True), "signed int": (32, True), "unsigned int": (32, False), "unsigned": (32, False),
         "long": (64, True), "signed long": (64, True), "unsigned long": (64, False), "long long": (64, True),
         "unsigned long long": (64, False), "Py_ssize_t": (64, True), "ssize_t": (64, True), "size_t": (64, False),
         "int8_t": (8, True), "uint8_t": (8, False), "int16_t": (16, True), "uint16_t": (16, False), "int32_t": (32, True),
         "uint32_t": (32, False), "int64_t": (64, True), "uint64_t": (64, False), "Py_UCS4": (32, False)}      # LP64
SCALARS = set(_INTS) | {"bint", "double", "float"}
OBJ = {"str", "bytes", "bytearray", "array.array", "object", "list", "dict"}


def _wrap(v, bits, signed):
    v = int(v)
    m = 1 << bits
    v %= m
    if signed and v >= m >> 1:
        v -= m
    return v


def _co(t, v):
    """coerce Python value v to C type t"""
    if t in ("unsigned char", "char"):
        if isinstance(v, str):
            if len(v) != 1:
                raise TypeError("only single character unicode strings can be converted to Py_UCS4")
            v = ord(v)
        elif isinstance(v, (bytes, bytearray)):
            v = v[0]
        return _wrap(v, 8, t == "char")
    if t in _INTS:
        bits, signed = _INTS[t]
        if isinstance(v, float):
            v = math.trunc(v)
        elif isinstance(v, str) and t == "Py_UCS4":
            v = ord(v)
        return _wrap(v, bits, signed)
    if t == "bint":
        return bool(v)
    if t == "double":
        return float(v)
    if t == "float":
        import struct
        try:
            return struct.unpack("f", struct.pack("f", float(v)))[0]
        except OverflowError:
            return math.copysign(float("inf"), v)
    return v


_SIG = re.compile(r"^(\s*)(cpdef|cdef|def)\s+(inline\s+)?(.*?)(\w+)\s*\((.*)\)\s*(?:nogil|noexcept|except\s*\??\s*[-+\w.*]+|\s)*:\s*$")
_DECL = re.compile(r"^(\s*)cdef\s+(.+?)\s*$")
_ASSIGN = re.compile(r"^(\s*)([A-Za-z_]\w*)\s*(\+|-|\*|//|/|\^|\||&|>>|<<)?=(?!=)\s*(.+?)\s*$")
_CAST = re.compile(r"<\s*(" + "|".join(sorted(SCALARS, key=len, reverse=True)) + r")\s*>\s*(.+)$")


def _split_type(decl):
    """'unsigned char[:] binstr = _binstr' -> (type, name, init or None)"""
    init = None
    if "=" in decl:
        left, init = decl.split("=", 1)
        left, init = left.strip(), init.strip()
    else:
        left = decl.strip()
    parts = left.split()
    name = parts[-1]
    ctype = " ".join(parts[:-1])
    return ctype, name, init


def transliterate(src):
    out = []
    ftypes = {}         # per function: local name -> scalar C type
    cur = None
    block = None        # indentation of an open `cdef:` block
    for n, raw in enumerate(src.split("\n"), 1):
        line = raw.rstrip()
        s = line.strip()
        if block is not None:
            ind = len(line) - len(line.lstrip())
            if s and ind > block:
                line = " " * block + "cdef " + s         # a declaration inside a `cdef:` block
                s = line.strip()
            elif s:
                block = None
        if s == "cdef:":
            block = len(line) - len(line.lstrip())
            out.append("%spass" % (" " * block))
            continue
        if re.match(r"^with\s+(nogil|gil)\s*:", s):
            out.append(line[: len(line) - len(line.lstrip())] + "if True:")
            continue
        if re.match(r"^DEF\s+\w+\s*=", s):
            out.append(line.replace("DEF ", "", 1))
            continue
        if s.startswith("cimport ") or (s.startswith("from ") and " cimport " in s) or s.startswith("@cython"):
            continue
        if s.startswith("# cython:"):
            continue
        m = _SIG.match(line)
        if m and m.group(2) in ("cpdef", "cdef", "def") and not line.lstrip().startswith("def __"):
            indent, kind, _inl, rtype, name, args = m.groups()
            rtype = rtype.strip()
            if indent != "":
                raise LaneUnavailable("nested function at line %d" % n)
            cur = name
            ftypes = {}
            pyargs, pre = [], []
            for a in [x.strip() for x in args.split(",") if x.strip()]:
                default = None
                if "=" in a:
                    a, default = [x.strip() for x in a.split("=", 1)]
                parts = a.split()
                an = parts[-1]
                at = " ".join(parts[:-1])
                pyargs.append(an + ("=" + default if default is not None else ""))
                if at in SCALARS:
                    ftypes[an] = at
                    pre.append("    %s = _co(%r, %s)" % (an, at, an))
                elif at == "str":
                    pre.append("    if %s is not None and not isinstance(%s, str): raise TypeError('Argument %s has incorrect type')" % (an, an, an))
                elif at and at not in OBJ:
                    raise LaneUnavailable("argument type %r at line %d" % (at, n))
            if rtype in SCALARS:
                out.append("@_ret(%r)" % rtype)
            elif rtype and rtype not in OBJ:
                raise LaneUnavailable("return type %r at line %d" % (rtype, n))
            out.append("def %s(%s):" % (name, ", ".join(pyargs)))
            out.extend(pre)
            continue
        m = _DECL.match(line)
        if m:
            indent, decl = m.groups()
            if "," in decl and "(" not in decl and "[" not in decl:      # cdef long bits, mask / cdef int a = 0, b = 1 / cdef int i, j = 5
                items = [x.strip() for x in decl.split(",")]
                head = items[0].split("=")[0].split()
                ctype = " ".join(head[:-1])
                if ctype not in SCALARS:
                    raise LaneUnavailable("multi-declaration of type %r at line %d" % (ctype, n))
                items[0] = items[0][items[0].index(head[-1], len(ctype)):]
                stmts = []
                for part in items:
                    nm, _, init = [x.strip() for x in part.partition("=")]
                    if indent:
                        ftypes[nm] = ctype
                    if init:
                        stmts.append("%s = _co(%r, %s)" % (nm, ctype, init))
                out.append(indent + ("; ".join(stmts) if stmts else "pass"))
                continue
            ctype, name, init = _split_type(decl)
            if ctype in SCALARS:
                if indent:
                    ftypes[name] = ctype
                out.append("%s%s = _co(%r, %s)" % (indent, name, ctype, init) if init is not None else "%spass" % indent)
            elif ctype.endswith("[:]") and ctype[:-3].strip() in _INTS:
                out.append("%s%s = %s" % (indent, name, init) if init is not None else "%spass" % indent)
            elif re.fullmatch(r"(.+?)\[\d+\]", ctype) and re.fullmatch(r"(.+?)\[\d+\]", ctype).group(1).strip() in _INTS:
                out.append("%s%s = list(%s)" % (indent, name, init) if init is not None else "%spass" % indent)
            elif ctype in OBJ or ctype == "":
                out.append("%s%s = %s" % (indent, name, init) if init is not None else "%spass" % indent)
            else:
                raise LaneUnavailable("cdef type %r at line %d" % (ctype, n))
            continue
        if "cdef " in s.split("#")[0] and not s.startswith("#"):
            raise LaneUnavailable("unrecognised cdef at line %d: %s" % (n, s))
        code = line
        mc = _CAST.search(code.split("#")[0])
        if mc:
            code = code[: mc.start()] + "_co(%r, %s)" % (mc.group(1), mc.group(2))
        ma = _ASSIGN.match(code)
        if ma and ma.group(1) and ma.group(2) in ftypes:
            indent, name, op, expr = ma.groups()
            expr = expr.split("  #")[0].rstrip()
            if op:
                expr = "%s %s (%s)" % (name, op, expr)
            code = "%s%s = _co(%r, %s)" % (indent, name, ftypes[name], expr)
        out.append(code)
    return "\n".join(out) + "\n"


def _ret(t):
    def deco(f):
        def g(*a, **k):
            r = f(*a, **k)
            if r is None and t != "bint":
                raise TypeError("an integer is required")
            return _co(t, r)
        g.__name__ = f.__name__
        g.__doc__ = f.__doc__
        return g
    return deco


def _c_acos(x):
    return math.acos(x) if -1.0 <= x <= 1.0 else float("nan")


def _c_floor(x):
    return math.floor(x) if x == x and abs(x) != float("inf") else x


def load(path):
    src = open(path).read()
    code = transliterate(src)
    mod = types.ModuleType("pyModeS.c_common")
    mod.__file__ = path
    env = mod.__dict__
    env.update({"_co": _co, "_ret": _ret, "array": array, "PyBytes_GET_SIZE": len, "PyByteArray_GET_SIZE": len,
                "cos": math.cos, "acos": _c_acos, "fabs": math.fabs, "pi": math.pi, "c_floor": _c_floor,
                "__verif_translated_source__": code})
    try:
        exec(compile(code, path + "<transliterated>", "exec"), env)
    except SyntaxError as e:
        raise LaneUnavailable("transliteration does not compile: %s" % e)
    return mod
