INIT Init
NEXT Next
INVARIANT L1
INVARIANT L2
INVARIANT L3
INVARIANT L4
CHECK_DEADLOCK FALSE
