-------------------------------- MODULE AltId -------------------------------
(* Annex 10 altitude codes (13-bit AC, 12-bit ADS-B field) and identity code. *)
(* Bit order of the 13-bit fields (position 1 = first transmitted):           *)
(*   AC: C1 A1 C2 A2 C4 A4 M  B1 Q  B2 D2 B4 D4                               *)
(*   ID: C1 A1 C2 A2 C4 A4 X  B1 D1 B2 D2 B4 D4                               *)
EXTENDS Bits

CB(code, pos) == (code \div Pow2(13 - pos)) % 2      \* bit at position pos (1..13) of a 13-bit code

(* ---------------- encoder side (what the transponder does) ---------------- *)
\* Gillham C-bit patterns (C1 C2 C4 as a 3-bit number) for the 100-ft sub-steps 1..5
CTab == <<1, 3, 2, 6, 4>>

LegalGillhamAlts == {100 * q - 1200 : q \in 0..1279}

\* 13-bit code (M = 0, Q = 0) for altitude h in LegalGillhamAlts, built from the definition:
\* Gray code of the 500-ft count over D2 D4 A1 A2 A4 B1 B2 B4, reflected 100-ft sub-code over C1 C2 C4
EncodeGillham(h) ==
  LET q == (h + 1200) \div 100
      n500 == q \div 5
      n100 == (q % 5) + 1
      g == n500 ^^ (n500 \div 2)                     \* 8-bit Gray code
      G(k) == (g \div Pow2(8 - k)) % 2               \* k = 1..8 : D2 D4 A1 A2 A4 B1 B2 B4
      v == IF n500 % 2 = 1 THEN 6 - n100 ELSE n100
      c == CTab[v]
      C1 == c \div 4  C2 == (c \div 2) % 2  C4 == c % 2
      bits == <<C1, G(3), C2, G(4), C4, G(5), 0, G(6), 0, G(7), G(1), G(8), G(2)>>
  IN  IntOfBits(bits)

\* 25-ft code (Q = 1, M = 0): N = (h + 1000) / 25 spread over the 11 non-M non-Q positions
EncodeQ(n) ==
  LET b == FromInt(n, 11)
  IN  IntOfBits(<<b[1], b[2], b[3], b[4], b[5], b[6], 0, b[7], 1, b[8], b[9], b[10], b[11]>>)

\* metric code (M = 1): N metres over the 12 non-M positions
EncodeM(n) ==
  LET b == FromInt(n, 12)
  IN  IntOfBits(<<b[1], b[2], b[3], b[4], b[5], b[6], 1, b[7], b[8], b[9], b[10], b[11], b[12]>>)

(* ---------------- decoder side (independent formulation) ---------------- *)
GrayToBin(g) ==       \* prefix XOR, for up to 8 bits
  LET a == g ^^ (g \div 256)
      b == a ^^ (a \div 16)
      c == b ^^ (b \div 4)
  IN  c ^^ (c \div 2)

NoAlt == -999999      \* "no altitude" (None in the Python API)

\* metres -> feet as the library does it: int(N * 3.28084)
MetresToFeetTrunc(n) == (n * 82021) \div 25000

DecodeGillham(code) ==
  LET g500 == IntOfBits(<<CB(code, 11), CB(code, 13), CB(code, 2), CB(code, 4), CB(code, 6),
                          CB(code, 8), CB(code, 10), CB(code, 12)>>)
      g100 == IntOfBits(<<CB(code, 1), CB(code, 3), CB(code, 5)>>)
      n500 == GrayToBin(g500)
      r == GrayToBin(g100)
  IN  IF r \in {0, 5, 6} THEN NoAlt
      ELSE LET s == IF r = 7 THEN 5 ELSE r
               n100 == IF n500 % 2 = 1 THEN 6 - s ELSE s
           IN  n500 * 500 + n100 * 100 - 1300

DecodeAC13(code) ==
  IF code = 0 THEN NoAlt
  ELSE IF CB(code, 7) = 1 THEN
         MetresToFeetTrunc(IntOfBits(<<CB(code,1), CB(code,2), CB(code,3), CB(code,4), CB(code,5), CB(code,6),
                                       CB(code,8), CB(code,9), CB(code,10), CB(code,11), CB(code,12), CB(code,13)>>))
  ELSE IF CB(code, 9) = 1 THEN
         25 * IntOfBits(<<CB(code,1), CB(code,2), CB(code,3), CB(code,4), CB(code,5), CB(code,6),
                          CB(code,8), CB(code,10), CB(code,11), CB(code,12), CB(code,13)>>) - 1000
  ELSE DecodeGillham(code)

\* the 12-bit ADS-B field is the 13-bit code without the M bit
AC12to13(f) == (f \div 64) * 128 + (f % 64)
DecodeAC12(f) == DecodeAC13(AC12to13(f))

(* ---------------- identity (squawk) code ---------------- *)
\* four octal digits A B C D; digit = 4*x4 + 2*x2 + x1
EncodeSquawk(a, b, c, d, x) ==
  LET bit(v, k) == (v \div k) % 2
  IN  IntOfBits(<<bit(c,1), bit(a,1), bit(c,2), bit(a,2), bit(c,4), bit(a,4), x,
                  bit(b,1), bit(d,1), bit(b,2), bit(d,2), bit(b,4), bit(d,4)>>)

SquawkDigits(code) ==
  <<4 * CB(code, 6) + 2 * CB(code, 4) + CB(code, 2),
    4 * CB(code, 12) + 2 * CB(code, 10) + CB(code, 8),
    4 * CB(code, 5) + 2 * CB(code, 3) + CB(code, 1),
    4 * CB(code, 13) + 2 * CB(code, 11) + CB(code, 9)>>

SquawkText(code) == LET d == SquawkDigits(code) IN <<48 + d[1], 48 + d[2], 48 + d[3], 48 + d[4]>>
=============================================================================
