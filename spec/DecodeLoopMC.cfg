SPECIFICATION FairSpec
CONSTANTS
  NB = 4
  Poison = {}
  MaxExc = 0
INVARIANT TypeOK
INVARIANT ExactlyOnceInOrder
INVARIANT NoLoss
INVARIANT PublishAfterProcessing
INVARIANT PublishComplete
PROPERTY PublishMonotone
PROPERTY StuckAfterPoison
PROPERTY PoisonSticks
PROPERTY AllProcessed
PROPERTY AllPublished
CHECK_DEADLOCK FALSE
