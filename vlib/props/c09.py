"""C09 - ADS-B velocity: airborne (TC19) and surface movement (TC5-8).

A: MC_ADSB (Vel, VelFull, Vr, Diff, Mov): TC19 layout agreement and value semantics; movement table monotone with the
   DO-260B breakpoints.
B/C: subtype x sign x boundary/full-range component values x vertical rate x difference, all 128 x 2 x 128 surface
   cells, guard cells, recorded TC19/TC5-8 traffic -> velocity / airborne_velocity / surface_velocity / speed_heading /
   altitude_diff -> TLC (TV_ADSB: speed = isqrt, track by the integer relation TrackOK, heading N*360/1024 ...).
"""
from .. import gen
from . import c01

B10 = [0, 1, 2, 3, 4, 255, 256, 511, 512, 513, 1021, 1022, 1023]


def tc19(rng, st, s1, v1, s2, v2, vrsrc=None, svr=None, vr=None, sdiff=None, diff=None, df=17):
    f = gen.rand_frame_df(rng, df)
    f = gen.set_bits(f, 33, 37, 19)
    f = gen.set_bits(f, 38, 40, st)
    f = gen.set_bits(f, 46, 46, s1)
    f = gen.set_bits(f, 47, 56, v1)
    f = gen.set_bits(f, 57, 57, s2)
    f = gen.set_bits(f, 58, 67, v2)
    if vrsrc is not None:
        f = gen.set_bits(f, 68, 68, vrsrc)
    if svr is not None:
        f = gen.set_bits(f, 69, 69, svr)
    if vr is not None:
        f = gen.set_bits(f, 70, 78, vr)
    if sdiff is not None:
        f = gen.set_bits(f, 81, 81, sdiff)
    if diff is not None:
        f = gen.set_bits(f, 82, 88, diff)
    return gen.selfsim_tail(rng, f, 0.05)


def vectors(ctx):
    rng = ctx.rng
    V = []
    fns = ["adsb.velocity", "adsb.airborne_velocity", "adsb.speed_heading"]

    def addv(f, case, k=None):
        fn = fns[(k if k is not None else len(V)) % 3]
        V.append({"fn": fn, "frame": f, "src": rng.randrange(2), "case": case, "cs": rng.choice([0, 0, 1])})

    n = 0
    for st in range(8):
        for s1 in (0, 1):
            for s2 in (0, 1):
                for v1 in B10:
                    for v2 in B10:
                        n += 1
                        f = tc19(rng, st, s1, v1, s2, v2, df=rng.choice([17, 17, 18]))
                        case = ["b", st, s1, v1, s2, v2]
                        addv(f, case, n)
                        if st in (1, 3) and (v1 in (0, 1, 1023) or v2 in (0, 1, 1023)):
                            addv(f, case, n + 1)
                            addv(f, case, n + 2)
    # full range of each 10-bit field with the other one fixed
    for st in (1, 2, 3, 4):
        for v in range(0, 1024, ctx.pick(3, 1)):
            for which in (0, 1):
                o = rng.choice([1, 7, 300, 1023])
                f = tc19(rng, st, rng.randrange(2), v if which == 0 else o, rng.randrange(2), o if which == 0 else v)
                addv(f, ["f", st, which, v, o])
    # vertical rate: all 512 x sign x source; GNSS-baro difference: all 128 x sign
    for vr in range(512):
        for svr in (0, 1):
            f = tc19(rng, rng.choice([1, 2, 3, 4]), rng.randrange(2), rng.randint(1, 1023), rng.randrange(2),
                     rng.randint(1, 1023), vrsrc=rng.randrange(2), svr=svr, vr=vr)
            addv(f, ["vr", svr, vr])
    for d in range(128):
        for sd in (0, 1):
            for _ in range(2):
                f = tc19(rng, rng.randrange(8), rng.randrange(2), rng.randrange(1024), rng.randrange(2),
                         rng.randrange(1024), sdiff=sd, diff=d)
                V.append({"fn": "adsb.altitude_diff", "frame": f, "case": ["d", sd, d]})
    # each field swept against an all-ones and an all-zeros rest of the ME field ("unaffected by the other bits" at the extremes)
    for bg in (0, 1):
        fill = ((1 << 48) - 1) * bg
        for st in (1, 2, 3, 4):
            for (msb, lsb) in ((47, 56), (58, 67), (70, 78), (82, 88)):
                w = lsb - msb + 1
                for val in range(0, 1 << w, ctx.pick(5, 1)):
                    f = gen.set_bits(gen.rand_frame_df(rng, rng.choice([17, 18])), 33, 37, 19)
                    f = gen.set_bits(f, 41, 88, fill)
                    f = gen.set_bits(f, 38, 40, st)
                    f = gen.set_bits(f, msb, lsb, val)
                    addv(f, ["bg", bg, st, msb, val])
                    if msb == 82:
                        V.append({"fn": "adsb.altitude_diff", "frame": f, "case": ["dbg", bg, st, val]})
    # whole-number speeds: every pair of component magnitudes (field value - 1) whose hypotenuse is an integer.  Whatever route
    # the implementation takes to the magnitude (sqrt, hypot, polar forms), a result one ulp below the integer truncates to the
    # wrong knot exactly here and nowhere else - 1 065 pairs of the 1 022 x 1 022
    import math
    for a in range(1, 1023):
        for b in range(a, 1023):
            c = math.isqrt(a * a + b * b)
            if c * c != a * a + b * b:
                continue
            for (x, y) in ((a, b), (b, a)):
                combos = [(st, s1, s2) for st in (1, 2) for s1 in (0, 1) for s2 in (0, 1)]
                for (st, s1, s2) in (combos if not ctx.quick else rng.sample(combos, 2)):
                    f = tc19(rng, st, s1, x + 1, s2, y + 1)
                    addv(f, ["pyth", st, s1, x, s2, y], (a + b + st) % 3)
    # random TC19 content
    for _ in range(ctx.pick(3000, 300000)):
        f = gen.set_bits(gen.rand_frame_df(rng, rng.choice([17, 18])), 33, 37, 19)
        addv(f, ["r", gen.get_bits(f, 38, 88) % 1000003])
        if rng.random() < 0.2:
            V.append({"fn": "adsb.altitude_diff", "frame": f, "case": ["r", gen.get_bits(f, 81, 88)]})
    # surface: all movement codes x status x track codes
    sfn = ["adsb.surface_velocity", "adsb.velocity", "adsb.speed_heading"]
    k = 0
    for mov in range(128):
        for stt in (0, 1):
            for trk in range(128):
                if ctx.quick and stt == 0 and trk % 8:
                    continue
                k += 1
                f = gen.rand_frame_df(rng, rng.choice([17, 18]))
                f = gen.set_bits(f, 33, 37, rng.randint(5, 8))
                f = gen.set_bits(f, 38, 44, mov)
                f = gen.set_bits(f, 45, 45, stt)
                f = gen.set_bits(f, 46, 52, trk)
                V.append({"fn": sfn[k % 3], "frame": f, "src": rng.randrange(2), "case": ["s", mov, stt, trk]})
    # guards
    for tc in range(32):
        for _ in range(ctx.pick(3, 30)):
            f = gen.set_bits(gen.rand_frame_df(rng, rng.choice([17, 18])), 33, 37, tc)
            for fn in ("adsb.velocity", "adsb.airborne_velocity", "adsb.surface_velocity", "adsb.speed_heading",
                       "adsb.altitude_diff"):
                V.append({"fn": fn, "frame": f, "src": rng.randrange(2), "case": ["g", tc]})
    for df in range(32):
        f = gen.rand_frame_df(rng, df)
        for fn in ("adsb.velocity", "adsb.altitude_diff", "adsb.speed_heading"):
            V.append({"fn": fn, "frame": f, "src": 0, "case": ["gdf", df]})
    for ts, msg, ic in gen.sample_frames("adsb")[:ctx.pick(2000, 100000)]:
        f = list(bytes.fromhex(msg))
        if (f[4] >> 3) in (19, 5, 6, 7, 8):
            V.append({"fn": "adsb.velocity", "frame": f, "src": 1, "case": ["smp", len(V)]})
    return V


def case_of(e):
    return (e["fn"], tuple(e["case"]))


def run(ctx):
    ctx.defer_guards = True
    ctx.rule = ("TC19: subtype(8) x signs x 13^2 boundary component values, full 10-bit range of each component, all 512 x 2 "
                "vertical rates, all 128 x 2 altitude differences, seeded random ME; TC5-8: all movement x status x track cells; "
                "guard cells; recorded traffic. distinct = (fn, abstract field tuple)")
    ctx.model_check("MC_ADSB", cfg="MC_ADSB.cfg", what="ADS-B ME layouts")
    ctx.check_events(vectors(ctx), case_of=case_of)


replay = c01.replay
