-------------------------------- MODULE CRC24 -------------------------------
(* The Mode S 24-bit cyclic redundancy check, generator                      *)
(*   G(x) = x^24+x^23+...+x^12 + x^10 + x^3 + 1  =  0x1FFF409.               *)
EXTENDS Bits

GenFull == 33551369     \* 0x1FFF409
GenLow  == 16774153     \* 0x0FFF409 (G without the x^24 term)
M24     == 16777216     \* 2^24

(* THE DEFINITION: remainder of the frame polynomial (bit 1 = highest power) *)
(* modulo G, by a 25-bit shift register fed one bit at a time.               *)
BitRemBits(bs) ==
  LET RECURSIVE Go(_, _)
      Go(r, k) == IF k > Len(bs) THEN r
                  ELSE LET s == 2 * r + bs[k]
                           t == IF s >= M24 THEN s ^^ GenFull ELSE s
                       IN  Go(t, k + 1)
  IN  Go(0, 1)

BitRem(f) == BitRemBits(BitsOf(f))

(* table formulation used for speed: Tab[i] = (i * x^24) mod G *)
Tab == [i \in 0..255 |-> BitRem(<<i, 0, 0, 0>>)]

\* (data * x^24) mod G over a byte sequence
DataRem(d) ==
  LET RECURSIVE Go(_, _)
      Go(c, k) == IF k > Len(d) THEN c
                  ELSE LET idx == ((c \div 65536) ^^ d[k]) % 256
                           nx  == ((c % 65536) * 256) ^^ Tab[idx]
                       IN  Go(nx, k + 1)
  IN  Go(0, 1)

Last24(f) == LET n == Len(f) IN f[n-2] * 65536 + f[n-1] * 256 + f[n]
DataOf(f) == SubSeq(f, 1, Len(f) - 3)

\* parity bits a transmitter computes over the data bytes
Parity(d) == DataRem(d)

\* syndrome of a whole frame = remainder of the frame polynomial
ByteRem(f) == DataRem(DataOf(f)) ^^ Last24(f)

\* frame = data bytes followed by a 24-bit value
WithTail(d, v) == d \o <<v \div 65536, (v \div 256) % 256, v % 256>>

XorSeq(a, b) == [k \in 1..Len(a) |-> a[k] ^^ b[k]]

(* ---- GF(2) linear algebra on 24-bit vectors (for the burst lemma) ---- *)
TopBit(v) == \* index (0..23) of the highest set bit of v > 0
  LET RECURSIVE Go(_)
      Go(k) == IF v >= Pow2(k) THEN k ELSE Go(k - 1)
  IN  Go(23)

\* reduce v against an echelon basis (function 0..23 -> vector with that top bit, or 0)
RECURSIVE Reduce(_, _)
Reduce(v, basis) ==
  IF v = 0 THEN 0
  ELSE LET t == TopBit(v)
       IN  IF basis[t] = 0 THEN v
           ELSE LET w == v ^^ basis[t] IN Reduce(w, basis)

\* rank of a sequence of vectors
Rank(vs) ==
  LET RECURSIVE Go(_, _, _)
      Go(k, basis, r) ==
        IF k > Len(vs) THEN r
        ELSE LET v == Reduce(vs[k], basis)
             IN  IF v = 0 THEN Go(k + 1, basis, r)
                 ELSE LET nb == [basis EXCEPT ![TopBit(v)] = v] IN Go(k + 1, nb, r + 1)
  IN  Go(1, [i \in 0..23 |-> 0], 0)
=============================================================================
