-------------------------------- MODULE Stream ------------------------------
(* Wire formats of the TCP client: Beast binary, AVR raw text, Skysense.     *)
(* Serialisers (what the receiver hardware does), frame positions on the     *)
(* wire, admission rules and the two bounds of the framing property:         *)
(*   MustCount(p): frames that MUST have been handed over once p bytes have  *)
(*                 arrived (complete and followed by the next frame start),  *)
(*   MayCount(p):  frames that MAY have been handed over (all bytes arrived).*)
EXTENDS Frame, FiniteSets

ESC == 26          \* 0x1A
STAR == 42         \* '*'
SEMI == 59         \* ';'
DOLLAR == 36       \* '$'

Concat(seqs) ==
  LET RECURSIVE C(_) C(k) == IF k > Len(seqs) THEN <<>> ELSE seqs[k] \o C(k + 1) IN C(1)

(* ------------------------------ Beast ---------------------------------- *)
\* a Beast record: [ty |-> 49..52 ('1'..'4'), body |-> 6 timestamp bytes, 1 signal byte, payload]
EscBytes(b) == Concat([k \in 1..Len(b) |-> IF b[k] = ESC THEN <<ESC, ESC>> ELSE <<b[k]>>])
BeastWire1(fr) == <<ESC, fr.ty>> \o EscBytes(fr.body)
BeastPayload(fr) == SubSeq(fr.body, 8, Len(fr.body))
\* the hex message the client hands over for an admitted record, or <<>> when the record is skipped
ShortDFs == {0, 4, 5, 11}
LongDFs == {16, 17, 18, 19, 20, 21, 24}
BeastAdmit(fr) ==
  LET pl == BeastPayload(fr)
      n == IF fr.ty = 50 THEN 7 ELSE IF fr.ty = 51 THEN 14 ELSE 0
  IN  IF n = 0 \/ Len(pl) < n THEN <<>>
      ELSE LET m == SubSeq(pl, 1, n)  d == DF(m)
           IN  IF (d \in ShortDFs /\ n # 7) \/ (d \in LongDFs /\ n # 14) THEN <<>> ELSE m

(* ------------------------------ raw / AVR ------------------------------ *)
\* a raw record: [text |-> hex characters as codes (any case), sep |-> separator bytes after ';']
RawWire1(fr) == <<STAR>> \o fr.text \o <<SEMI>> \o fr.sep

(* ------------------------------ Skysense ------------------------------- *)
\* a Skysense record: [pl |-> 14 payload bytes, tail |-> 6 timestamp + 3 level bytes]
SkyWire1(fr) == <<DOLLAR>> \o fr.pl \o fr.tail
SkyAdmit(fr) == IF fr.pl[1] >= 128 THEN fr.pl ELSE SubSeq(fr.pl, 1, 7)

(* ----------------------- positions and bounds -------------------------- *)
Wire1(kind, fr) == IF kind = "beast" THEN BeastWire1(fr) ELSE IF kind = "raw" THEN RawWire1(fr) ELSE SkyWire1(fr)
WireOf(kind, frs) == Concat([k \in 1..Len(frs) |-> Wire1(kind, frs[k])])
\* index (1-based) of the first / last byte of record k on the wire
StartOf(kind, frs, k) == 1 + Len(WireOf(kind, SubSeq(frs, 1, k - 1)))
EndOf(kind, frs, k) ==
  IF kind = "raw" THEN StartOf(kind, frs, k) + Len(frs[k].text) + 1          \* the ';'
  ELSE Len(WireOf(kind, SubSeq(frs, 1, k)))
MayCount(kind, frs, p) == Cardinality({k \in 1..Len(frs) : EndOf(kind, frs, k) <= p})
MustCount(kind, frs, p) ==
  IF kind = "raw" THEN MayCount(kind, frs, p)
  ELSE IF kind = "beast" THEN Cardinality({k \in 1..(Len(frs) - 1) : StartOf(kind, frs, k + 1) + 1 <= p})
  ELSE Cardinality({k \in 1..(Len(frs) - 1) : StartOf(kind, frs, k + 1) <= p})

\* what is handed over for record k: <<>> = nothing
Out1(kind, fr) == IF kind = "beast" THEN BeastAdmit(fr) ELSE IF kind = "raw" THEN fr.text ELSE SkyAdmit(fr)
\* the messages handed over once the first K records have been consumed
OutUpTo(kind, frs, K) == SelectSeq([k \in 1..K |-> Out1(kind, frs[k])], LAMBDA m : m # <<>>)

\* the framing property for a cumulative output `out` (sequence of messages as bytes / characters) after p bytes
Framing(kind, frs, p, out) ==
  \E K \in MustCount(kind, frs, p)..MayCount(kind, frs, p) : out = OutUpTo(kind, frs, K)
=============================================================================
