INIT TInit
NEXT TNext
POSTCONDITION TDone
CHECK_DEADLOCK FALSE
CONSTANTS
  NB = 6
  Poison = {}
  MaxExc = 1000000
