------------------------------- MODULE TV_Core ------------------------------
(* Verdicts for CRC (C01) and address recovery (C02) events.                 *)
EXTENDS Frame, Res

V_crc(e) ==
  LET f == e.frame
      want == IF e.enc = 1 THEN Parity(DataOf(f)) ELSE ByteRem(f)
  IN  IF ~IsInt(e.res, want) THEN (IF e.enc = 1 THEN "crc_encode_parity" ELSE "crc_remainder")
      ELSE "ok"

\* icao(): e.text is the hex text exactly as passed (any letter case)
IcaoWant(text) ==
  LET f == BytesOfText(text)
      a == IcaoInt(f)
  IN  a

V_icao(e) ==
  LET a == IcaoWant(e.text)
  IN  IF a = -1 THEN (IF IsNone(e.res) THEN "ok" ELSE "icao_none_for_other_df")
      ELSE IF e.res.t # "s" THEN "icao_not_string"
      ELSE IF e.res.v = HexText(a, 6) THEN "ok"
      ELSE IF Len(e.res.v) = 6 /\ IsHexText(e.res.v)
              /\ BytesOfText(e.res.v) = BytesOfText(HexText(a, 6)) THEN "icao_not_canonical_case"
      ELSE "icao_wrong_address"

\* allcall.icao(): DF11 only
V_allcall_icao(e) ==
  LET f == BytesOfText(e.text)
  IN  IF DF(f) # 11 THEN (IF IsErr(e.res) THEN "ok" ELSE "allcall_icao_guard")
      ELSE V_icao(e)
=============================================================================
