"""Single entry point for every TLC invocation made by the checks."""
import os
import re
import shutil
import subprocess
import tempfile
import time

from . import tlaval

JAR = "/opt/veriftools/tla/tla2tools.jar:/opt/veriftools/tla/CommunityModules-deps.jar"
SPEC_DIR = os.path.join(os.path.dirname(os.path.dirname(os.path.abspath(__file__))), "spec")


class MachineryError(Exception):
    """TLC crashed / timed out / output unparsable: never a violation, never success."""


class TLCResult:
    def __init__(self):
        self.cmd = ""
        self.exit = None
        self.out = ""
        self.generated = 0
        self.distinct = 0
        self.depth = 0
        self.wall = 0.0
        self.invariant_violated = None   # name of violated invariant / property, or None
        self.error_text = None
        self.prints = []
        self.coverage = {}

    @property
    def ok(self):
        return self.exit == 0 and self.invariant_violated is None and self.error_text is None


_re_states = re.compile(r"(\d+) states generated, (\d+) distinct states found")
_re_depth = re.compile(r"The depth of the complete state graph search is (\d+)")
_re_inv = re.compile(r"Error: Invariant (\S+) is violated")
_re_prop = re.compile(r"Error: (?:Action property|Temporal properties|Postcondition) ?(\S*) (?:is|was|were) violated")
_re_cov = re.compile(r"^<(\w+) line (\d+), col \d+ to line \d+, col \d+ of module (\w+)>: (\d+):(\d+)", re.M)


def run(module, cfg_text=None, cfg=None, *, workers=1, env=None, timeout=900, dump=None,
        simulate=None, depth=None, seed=None, coverage=False, deadlock=None, extra=(),
        workdir=None, xss="512m", heap=None, keep_out=True):
    """Run TLC on spec/<module>.tla. Returns TLCResult. Raises MachineryError on crash/timeout."""
    own = workdir is None
    wd = workdir or tempfile.mkdtemp(prefix="vtlc_")
    try:
        if cfg_text is not None:
            cfgp = os.path.join(wd, module + "_%d.cfg" % os.getpid())
            with open(cfgp, "w") as f:
                f.write(cfg_text)
        else:
            cfgp = os.path.join(SPEC_DIR, cfg or (module + ".cfg"))
        meta = tempfile.mkdtemp(prefix="meta_", dir=wd)
        if workers == 1:
            # many single-worker validators run side by side: keep each JVM small and single-threaded
            cmd = ["java", "-Xss" + xss, "-XX:+UseSerialGC", "-XX:ActiveProcessorCount=2", "-XX:TieredStopAtLevel=4",
                   "-Xmx" + (heap or "3g")]
        else:
            cmd = ["java", "-Xss" + xss, "-XX:+UseParallelGC"]
            if heap:
                cmd.append("-Xmx" + heap)
        # TLC drops a tlc-<random> directory into java.io.tmpdir on every start: keep it inside our own scratch directory
        cmd += ["-Djava.io.tmpdir=" + wd, "-cp", JAR, "tlc2.TLC", "-workers", str(workers), "-metadir", meta,
                "-noGenerateSpecTE", "-config", cfgp]
        if dump:
            cmd += ["-dump", dump]
        if simulate:
            cmd += ["-simulate", simulate]
        if depth:
            cmd += ["-depth", str(depth)]
        if seed is not None:
            cmd += ["-seed", str(seed)]
        if coverage:
            cmd += ["-coverage", "1"]
        if deadlock is False:
            cmd += ["-deadlock"]
        cmd += list(extra)
        cmd.append(os.path.join(SPEC_DIR, module + ".tla"))
        e = dict(os.environ)
        if env:
            e.update({k: str(v) for k, v in env.items()})
        r = TLCResult()
        r.cmd = " ".join(cmd)
        t0 = time.time()
        try:
            p = subprocess.run(cmd, cwd=wd, env=e, stdout=subprocess.PIPE, stderr=subprocess.STDOUT,
                               timeout=timeout, text=True, errors="replace")
        except subprocess.TimeoutExpired:
            raise MachineryError("TLC timeout after %ss: %s" % (timeout, r.cmd))
        r.wall = time.time() - t0
        r.exit = p.returncode
        r.out = p.stdout
        ms = _re_states.findall(p.stdout)
        if ms:
            r.generated, r.distinct = int(ms[-1][0]), int(ms[-1][1])
        m = _re_depth.search(p.stdout)
        if m:
            r.depth = int(m.group(1))
        m = _re_inv.search(p.stdout)
        if m:
            r.invariant_violated = m.group(1)
        else:
            m = _re_prop.search(p.stdout)
            if m:
                r.invariant_violated = m.group(1) or "property"
        if r.invariant_violated is None and ("Error:" in p.stdout or p.returncode != 0):
            k = p.stdout.find("Error:")
            r.error_text = p.stdout[k:k + 1500] if k >= 0 else p.stdout[-1500:]
        if coverage:
            for name, line, mod, a, b in _re_cov.findall(p.stdout):
                r.coverage["%s.%s:%s" % (mod, name, line)] = (int(a), int(b))
        r.prints = tlaval.extract_prints(p.stdout)
        if not keep_out:
            r.out = r.out[-4000:]
        return r
    finally:
        if own:
            shutil.rmtree(wd, ignore_errors=True)
        else:
            for d in os.listdir(wd):
                if d.startswith("meta_") or d.startswith("tlc-") or d.startswith("hsperfdata"):
                    shutil.rmtree(os.path.join(wd, d), ignore_errors=True)


def require_ok(r, what):
    """Model-checking run must pass; an invariant violation here is a *spec-level* failure
    (the model itself is wrong) and is reported as machinery failure, not as a code violation."""
    if r.invariant_violated:
        raise MachineryError("%s: spec-level property %s violated in TLC run\n%s" % (what, r.invariant_violated, r.out[-3000:]))
    if not r.ok:
        raise MachineryError("%s: TLC failed (exit %s)\n%s" % (what, r.exit, (r.error_text or r.out[-3000:])))
    return r
