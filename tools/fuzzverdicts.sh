#!/bin/bash
# Robustness of the verdict operators: every 5th recorded result replaced by wild integers (VERIF_FUZZ_RESULTS, scratch trees only).
# Every check must then end with VIOLATION (exit 1) - an exit 2 means a verdict operator overflowed / crashed on wild input.
cd "$(dirname "$0")/.." || exit 2
wt=/tmp/fuzz_wt_$$
git -C /repo worktree add -q --detach $wt HEAD || exit 2
[ -f /repo/src/pyModeS/c_common.c ] && cp /repo/src/pyModeS/c_common.c $wt/src/pyModeS/
for p in ${@:-C01 C02 C03 C04 C05 C06 C07 C08 C09 C10 C11 C12 C13 C14 C15 C16 C17 C18 C19 C20}; do
  out=$(VERIF_REPO=$wt VERIF_SKIP_A=1 VERIF_FUZZ_RESULTS=7 /venv/bin/python ./check $p 2>&1); ec=$?
  echo "$p exit=$ec $(echo "$out" | grep -E "MACHINERY|^Error" | head -2 | cut -c1-200)"
done
git -C /repo worktree remove --force $wt
