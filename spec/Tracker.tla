-------------------------------- MODULE Tracker -----------------------------
(* The live aircraft table (streamer/decode.py Decode.process_raw) as a pure *)
(* function on abstract messages, plus the predicates of property C17.       *)
(* Time is counted in half seconds (t = 2 * seconds); positions as in CPR.   *)
EXTENDS CPR, TLC, TrackerTime

\* abstract message: [addr, t, cls, oe, yz, xz]; cls in {"air", "surf", "ident", "vel", "other", "commb"}
NoSlot == [has |-> FALSE, t |-> 0, yz |-> 0, xz |-> 0, cls |-> ""]
FreshEntry == [live |-> 0, hasPos |-> FALSE, tpos |-> 0, pk |-> "", L |-> 0, N |-> 60, M |-> 0, ni |-> 1,
               r |-> 0, s |-> 0, e |-> NoSlot, o |-> NoSlot]

\* a stored lattice position rounded to the 360/2^20-degree grid (used as the next reference)
GridLat(kind, L, N) == FloorDiv(16 * L + Sc(kind) * N, 2 * Sc(kind) * N)
GridLon(kind, M, ni) == FloorDiv(16 * M + Sc(kind) * ni, 2 * Sc(kind) * ni)

KindOf(cls) == IF cls = "surf" THEN "surf" ELSE "air"

\* position computed for a position message, or NoPos; rx = <<has, r, s>> receiver location
PositionFor(ent, m, rx) ==
  LET fld == [yz |-> m.yz, xz |-> m.xz] IN
  IF ent.hasPos /\ m.t - ent.tpos < 360
  THEN Local(KindOf(m.cls), fld, m.oe, ent.r, ent.s) @@ [kind |-> KindOf(m.cls)]
  ELSE IF ent.e.has /\ ent.o.has /\ Abs(ent.e.t - ent.o.t) < 20
  THEN IF ent.e.cls # ent.o.cls THEN NoPos                         \* mixed surface/airborne pair: refused
       ELSE IF ent.e.cls = "surf"
            THEN (IF rx[1] THEN GlobalSurf(ent.e, ent.o, ent.e.t > ent.o.t, rx[2], rx[3]) @@ [kind |-> "surf"] ELSE NoPos)
            ELSE GlobalAir(ent.e, ent.o, ent.e.t > ent.o.t) @@ [kind |-> "air"]
  ELSE NoPos

ApplyAdsb(tab, m, rx) ==
  LET e0 == IF m.addr \in DOMAIN tab THEN tab[m.addr] ELSE FreshEntry
      e1 == [e0 EXCEPT !.live = LiveOf(m.t)]
  IN  \* named deviation SurfaceWithoutVelocitySkipsPosition: a surface message whose movement field carries no speed or
      \* whose track is invalid is dropped before its position is looked at (m.skip)
      IF m.cls \notin {"air", "surf"} \/ m.skip THEN (m.addr :> e1) @@ tab
      ELSE LET slot == [has |-> TRUE, t |-> m.t, yz |-> m.yz, xz |-> m.xz, cls |-> m.cls]
               e2 == IF m.oe = 0 THEN [e1 EXCEPT !.e = slot] ELSE [e1 EXCEPT !.o = slot]
               pos == PositionFor(e2, m, rx)
               e3 == IF pos.none THEN e2
                     ELSE [e2 EXCEPT !.hasPos = TRUE, !.tpos = m.t, !.pk = pos.kind, !.L = pos.L, !.N = pos.N,
                                     !.M = pos.M, !.ni = pos.ni,
                                     !.r = GridLat(pos.kind, pos.L, pos.N), !.s = GridLon(pos.kind, pos.M, pos.ni)]
           IN  (m.addr :> e3) @@ tab

ApplyCommB(tab, m) ==
  \* a reply older than what was already heard from the aircraft (Comm-B replies are processed after all ADS-B
  \* messages of the batch) must not make the aircraft look staler: live only moves forward
  IF m.addr \in DOMAIN tab THEN (m.addr :> [tab[m.addr] EXCEPT !.live = Max(@, LiveOf(m.t))]) @@ tab ELSE tab

Evict(tab, tnow) == [a \in {x \in DOMAIN tab : ~Evicted(tab[x].live, tnow)} |-> tab[a]]

\* one process_raw call: ADS-B messages in order, then Comm-B messages in order, then eviction
Process(tab, adsb, commb, tnow, rx) ==
  LET RECURSIVE A(_, _)
      A(k, tb) == IF k > Len(adsb) THEN tb ELSE LET nx == ApplyAdsb(tb, adsb[k], rx) IN A(k + 1, nx)
      RECURSIVE C(_, _)
      C(k, tb) == IF k > Len(commb) THEN tb ELSE LET nx == ApplyCommB(tb, commb[k]) IN C(k + 1, nx)
  IN  Evict(C(1, A(1, tab)), tnow)

(* ------------------------- the property's predicates ------------------------- *)
\* stored position within 0.001 degree of the truth (a, o):  0.001 deg = 46.6 BAM24 units; lattice point compared exactly
\*   |base*L/(N*2^17) - 360*a/2^24| <= 0.001  <=>  |128*L - a*N*sc| * 360 <= 0.001 * N*sc * 2^24 ... in integers:
AccurateLat(kind, a, L, N) == Abs(128 * L - a * N * Sc(kind)) * 125 <= 5825 * N * Sc(kind) + 125 * 64
AccurateLon(kind, o, M, ni) ==
  LET turn == ni * Sc(kind) * P17
      q == FloorDiv(o * ni * Sc(kind) + 64, 128)
      d == PosMod(M - q, turn)
      dd == Min(d, turn - d)
  IN  dd * 16000 <= 5825 * ni * Sc(kind) + 8000
=============================================================================
