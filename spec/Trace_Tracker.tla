---------------------------- MODULE Trace_Tracker ---------------------------
(* Role C for C17: process_raw() calls of the real Decode object, recorded    *)
(* with the full projected table after each call and the ground truth of the *)
(* genuine position squitters, are checked (1) against the model             *)
(* Tracker.Process started from the previously recorded table and (2)        *)
(* against the property's own predicates (Fresh, Gate, Accurate, NoRaise).   *)
(*  [ev |-> "start", run, rx]                     a new Decode object         *)
(*  [ev |-> "proc", run, id, tnow, adsb, commb, post, exc, dup]               *)
(*     message: [f |-> frame bytes, t |-> half seconds, g |-> 1 if genuine position squitter, a, o |-> truth]  *)
(*     post entry: [addr, live, hp, tpos, posA, posS, r, s, e, o, cb]         *)
EXTENDS Tracker, TV_CPR, TV_ADSB, TV_CommB, Json, IOUtils

Events == ndJsonDeserialize(IOEnv.TRACE_FILE)

VARIABLES l, tab, heard, seen, rx, cont

ClsOf(f) ==
  LET tc == TypeCode(f) IN
  IF tc >= 1 /\ tc <= 4 THEN "ident" ELSE IF tc >= 5 /\ tc <= 8 THEN "surf" ELSE IF tc >= 9 /\ tc <= 18 THEN "air"
  ELSE IF tc = 19 THEN "vel" ELSE "other"
AbsAdsb(m) == [addr |-> IcaoInt(m.f), t |-> m.t, cls |-> ClsOf(m.f), oe |-> OE(m.f), yz |-> YZ(m.f), xz |-> XZ(m.f),
               skip |-> ClsOf(m.f) = "surf" /\ (MovementEighths(SurfMov(m.f)) = NA \/ SurfTrkStatus(m.f) = 0)]
AbsCommB(m) == [addr |-> IcaoInt(m.f), t |-> m.t, cls |-> "commb", oe |-> 0, yz |-> 0, xz |-> 0, skip |-> FALSE]

SlotOf(s) == IF s.has = 1 THEN [has |-> TRUE, t |-> s.t, yz |-> s.yz, xz |-> s.xz,
                                cls |-> IF s.tc >= 5 /\ s.tc <= 8 THEN "surf" ELSE "air"]
             ELSE NoSlot
\* recorded table -> model table (the lattice fields are not needed to continue: references use r, s)
EntryOf(p) == [live |-> p.live, hasPos |-> p.hp = 1, tpos |-> p.tpos, pk |-> "", L |-> 0, N |-> 60, M |-> 0, ni |-> 1,
               r |-> p.r, s |-> p.s, e |-> SlotOf(p.e), o |-> SlotOf(p.o)]
TableOf(post) == [a \in {post[k].addr : k \in 1..Len(post)} |->
                    EntryOf(post[CHOOSE k \in 1..Len(post) : post[k].addr = a])]

SameSlot(ms, ps) == ms.has = (ps.has = 1) /\ (ms.has => ms.t = ps.t /\ ms.yz = ps.yz /\ ms.xz = ps.xz /\ ms.cls = SlotOf(ps).cls)
\* does the recorded entry p agree with the model entry m (position compared on the lattice when it was set in this call)
SameEntry(m, p, pre) ==
  /\ m.live = p.live /\ m.hasPos = (p.hp = 1) /\ (m.hasPos => m.tpos = p.tpos)
  /\ SameSlot(m.e, p.e) /\ SameSlot(m.o, p.o)
  /\ (m.hasPos /\ m.pk # "") =>       \* pk # "": position computed by the model in this call
        PosMatchModTurn(IF m.pk = "surf" THEN p.posS ELSE p.posA, [L |-> m.L, N |-> m.N, M |-> m.M, ni |-> m.ni], m.pk)

ModelAgrees(mt, post) ==
  /\ DOMAIN mt = {post[k].addr : k \in 1..Len(post)}
  /\ \A k \in 1..Len(post) : SameEntry(mt[post[k].addr], post[k], tab)

\* which part of the table differs from the model (for the MODEL-DRIFT report)
DriftKind(mt, post) ==
  IF DOMAIN mt # {post[k].addr : k \in 1..Len(post)} THEN "keys"
  ELSE LET bad == CHOOSE k \in 1..Len(post) : ~SameEntry(mt[post[k].addr], post[k], tab)
           m == mt[post[bad].addr]  p == post[bad]
       IN  IF m.live # p.live THEN "live"
           ELSE IF m.hasPos # (p.hp = 1) THEN (IF m.hasPos THEN "position_missing" ELSE "position_unexpected")
           ELSE IF m.hasPos /\ m.tpos # p.tpos THEN (IF m.tpos > p.tpos THEN "position_not_updated" ELSE "position_updated_unexpectedly")
           ELSE IF ~SameSlot(m.e, p.e) \/ ~SameSlot(m.o, p.o) THEN "slots"
           ELSE "lattice"

\* ---- the property's predicates on the recorded table ----
LastT(seq, x) == LET ks == {k \in 1..Len(seq) : seq[k].addr = x} IN seq[CHOOSE k \in ks : \A q \in ks : q <= k].t
HeardNext(e, aa, cc) ==
  LET adsbA == {aa[k].addr : k \in 1..Len(aa)}
      mid == Process(tab, aa, <<>>, 0, rx)
      cbA == {cc[k].addr : k \in 1..Len(cc)} \cap DOMAIN mid
  IN  [x \in adsbA \cup cbA \cup DOMAIN heard |->
         Max(IF x \in adsbA THEN LastT(aa, x) ELSE 0, Max(IF x \in cbA THEN LastT(cc, x) ELSE 0, IF x \in DOMAIN heard THEN heard[x] ELSE 0))]

Keys(post) == {post[k].addr : k \in 1..Len(post)}
FreshOK(e, h) == \A x \in DOMAIN h :
   /\ (e.tnow - h[x] <= 118 => x \in Keys(e.post))
   /\ (e.tnow - h[x] > 122 => x \notin Keys(e.post))
GateOK(e, sn) == Keys(e.post) \subseteq sn /\ e.dup = 0

\* stored position of entry p against the truth of the genuine squitter that set it (same address, same time)
AccurateOK(e) == \A k \in 1..Len(e.post) :
   LET p == e.post[k]
       cand == {i \in 1..Len(e.adsb) : e.adsb[i].g = 1 /\ IcaoInt(e.adsb[i].f) = p.addr /\ e.adsb[i].t = p.tpos}
   IN  (p.hp = 1 /\ cand # {}) =>
         LET m == e.adsb[CHOOSE i \in cand : \A q \in cand : q <= i]
             dl == p.posA.lat26 - 4 * m.a
             d0 == PosMod(p.posA.lon26 - 4 * m.o, 67108864)
         IN  Abs(dl) <= 187 /\ Min(d0, 67108864 - d0) <= 187

\* the harness's own encoder must agree with the spec's encoder on every genuine squitter (oracle self-check)
EncoderOK(e) == \A i \in 1..Len(e.adsb) :
   e.adsb[i].g = 1 =>
      LET f == e.adsb[i].f  en == Encode(IF ClsOf(f) = "surf" THEN "surf" ELSE "air", e.adsb[i].a, e.adsb[i].o, OE(f))
      IN  en.yz = YZ(f) /\ en.xz = XZ(f)

(* ------------------------------------------------------------------------------------------------------------ *)
(* The rest of the table (beyond what C17 states): callsign, speed / track / vertical rate, altitude and the       *)
(* Comm-B values are modelled too, so that a change to how process_raw fills them shows up as MODEL-DRIFT.          *)
(* An expectation is [k |-> "keep"] (unchanged: equal to what was recorded after the previous call),               *)
(* [k |-> "none"], [k |-> "str", v], [k |-> "q", n, d] (rational), [k |-> "ang", n] (n/128 deg),                  *)
(* [k |-> "trk", we, sn] (track of a velocity vector), [k |-> "any"] (not decidable by the model).                *)
(* ------------------------------------------------------------------------------------------------------------ *)
Fields == {"call", "gs", "trk", "roc", "alt", "tas", "roll", "rtrk", "trk50", "gs50", "ias", "hdg", "mach", "rb", "ri",
           "ver", "nics", "nica", "nicbc", "nucp", "nic", "nucv", "nacv", "nacp"}
\* the quality-indicator state: the ADS-B version heard in the last TC31 message decides how later position and velocity
\* messages are read (NIC from the v1 or the v2 table, with the supplement bits remembered from TC31 / TC9-18 messages)
IntState == {"ver", "nics", "nica", "nicbc", "nucp", "nic", "nucv", "nacv", "nacp"}
Qi(n) == [k |-> "q", n |-> n, d |-> 1]
NoneX == [k |-> "none"]
AnyX == [k |-> "any"]
FromRec(rec) == IF rec.t = "i" THEN Qi(rec.v) ELSE IF rec.t = "n" THEN NoneX ELSE AnyX
ValOf(x) == IF x.k = "q" THEN x.n ELSE IF x.k = "none" THEN -1 ELSE -2          \* -1: None / never set, -2: unknown to the model
AllOf(x) == [f \in Fields |-> x]
Qx(q) == [k |-> "q", n |-> q[1], d |-> q[2]]
QorNone(v) == IF v = NA THEN [k |-> "none"] ELSE [k |-> "q", n |-> v, d |-> 1]

\* effect of one ADS-B message on the expectations of its aircraft; posSet: the model stored a position for it
AdsbContent(ex, f, posSet) ==
  LET tc == TypeCode(f)
      e1 == IF tc >= 1 /\ tc <= 4 THEN [ex EXCEPT !.call = [k |-> "str", v |-> CallsignText(f)]] ELSE ex
      e2 == IF tc >= 5 /\ tc <= 8 THEN
               (IF MovementEighths(SurfMov(f)) = NA \/ SurfTrkStatus(f) = 0 THEN e1
                ELSE [e1 EXCEPT !.gs = [k |-> "q", n |-> MovementEighths(SurfMov(f)), d |-> 8],
                                !.trk = [k |-> "ang", n |-> 360 * SurfTrk(f)], !.roc = [k |-> "q", n |-> 0, d |-> 1]])
            ELSE IF tc = 19 /\ Subtype19(f) \in {1, 2} /\ VelV1(f) # 0 /\ VelV2(f) # 0 THEN
               [e1 EXCEPT !.gs = [k |-> "q", n |-> GroundSpeed(f), d |-> 1], !.trk = [k |-> "trk", we |-> Vwe(f), sn |-> Vsn(f)],
                          !.roc = QorNone(VertRate(f))]
            ELSE e1
      e3 == IF posSet THEN
               [e2 EXCEPT !.alt = IF tc >= 5 /\ tc <= 8 THEN [k |-> "q", n |-> 0, d |-> 1]
                                  ELSE LET d == DecodeAC12(MEField(f, 9, 20)) IN IF d = NoAlt THEN [k |-> "none"] ELSE [k |-> "q", n |-> d, d |-> 1]]
            ELSE e2
  IN  e3

\* the "Uncertainty & accuracy" block at the end of the per-message loop (integer categories only; the radii are table look-ups)
UncContent(ex, f) ==
  LET tc == TypeCode(f)
      e1 == IF tc >= 9 /\ tc <= 18 THEN [ex EXCEPT !.nicbc = Qi(MEBit(f, 8))] ELSE ex
      ver == ValOf(e1.ver)  sv == ValOf(e1.nics)  na == ValOf(e1.nica)  nb == ValOf(e1.nicbc)
      e2 == IF ~PosTC(f) THEN e1
            ELSE LET a == [e1 EXCEPT !.nucp = Qi(NUCpOfTC(tc))] IN
                 IF ver = -2 \/ (ver = 1 /\ sv = -2) \/ (ver = 2 /\ (na = -2 \/ nb = -2)) THEN [a EXCEPT !.nic = AnyX]
                 ELSE IF ver = 1 /\ sv >= 0 THEN [a EXCEPT !.nic = Qi(NICv1OfTC(tc, sv))]
                 ELSE IF ver = 2 /\ na >= 0 /\ nb >= 0 THEN
                      LET sup == IF tc >= 20 THEN 0 ELSE 2 * na + nb
                          n == NICv2OfTC(tc, sup)
                          rc == IF n = -1 THEN -1 ELSE NICv2Rc(n, sup)
                      IN  [a EXCEPT !.nic = IF rc = -1 THEN NoneX ELSE Qi(n)]
                 ELSE a
      e3 == IF tc = 19 THEN
               LET b == [e2 EXCEPT !.nucv = Qi(NUCv(f))] IN
               IF ver = -2 THEN [b EXCEPT !.nacv = AnyX] ELSE IF ver \in {1, 2} THEN [b EXCEPT !.nacv = Qi(NUCv(f))] ELSE b
            ELSE e2
      e4 == IF tc = 29 THEN [e3 EXCEPT !.nacp = Qi(MEField(f, 40, 43))] ELSE e3
      e5 == IF tc = 31 THEN
               LET v == Version31(f)
                   c == [e4 EXCEPT !.ver = Qi(v), !.nacp = Qi(MEField(f, 45, 48))]
               IN  IF v = 1 THEN [c EXCEPT !.nics = Qi(MEBit(f, 44))]
                   ELSE IF v = 2 THEN [c EXCEPT !.nica = Qi(MEBit(f, 44)), !.nicbc = Qi(MEBit(f, 20))] ELSE c
            ELSE e4
  IN  e5

\* is that block reached for message m?  The loop `continue`s before it when the velocity of a TC5-8 / TC19 message is unusable
\* and when the global decode of a stored pair raises (mixed surface / airborne pair, surface pair without receiver position)
Reached(m, f, tb, ntb) ==
  LET tc == TypeCode(f)
      ent0 == IF m.addr \in DOMAIN tb THEN tb[m.addr] ELSE FreshEntry
      refOK == ent0.hasPos /\ m.t - ent0.tpos < 360
      en == ntb[m.addr]
  IN  IF tc = 19 THEN Subtype19(f) \in {1, 2} /\ VelV1(f) # 0 /\ VelV2(f) # 0
      ELSE IF m.cls \in {"air", "surf"} THEN
           /\ ~m.skip
           /\ ~(~refOK /\ en.e.has /\ en.o.has /\ Abs(en.e.t - en.o.t) < 20 /\ (en.e.cls # en.o.cls \/ (en.e.cls = "surf" /\ ~rx[1])))
      ELSE TRUE

\* a value is stored only when it is "truthy" (not None and not zero)
SetIfTruthy(ex, fld, q) == IF q = NAq \/ q[1] = 0 THEN ex ELSE [ex EXCEPT ![fld] = Qx(q)]
CommBContent(ex, f) ==
  LET aero == IF Is60Format(f) THEN Is60Aero(f) ELSE "fail" IN
  IF MBZero(f) THEN ex
  ELSE IF aero = "open" THEN [fl \in Fields |-> IF fl \in {"tas", "roll", "rtrk", "trk50", "gs50", "ias", "hdg", "mach", "rb", "ri"} THEN [k |-> "any"] ELSE ex[fl]]
  ELSE LET c == Candidates(f, FALSE, aero = "pass") IN
       IF c = <<"BDS50">> THEN
            SetIfTruthy(SetIfTruthy(SetIfTruthy(SetIfTruthy(SetIfTruthy(ex, "tas", Tas50(f)), "roll", Roll50(f)), "rtrk", Rtrk50(f)),
                                    "trk50", Trk50(f)), "gs50", Gs50(f))
       ELSE IF c = <<"BDS60">> THEN
            SetIfTruthy(SetIfTruthy(SetIfTruthy(SetIfTruthy(SetIfTruthy(ex, "ias", Ias60(f)), "hdg", Hdg60(f)), "mach", Mach60(f)),
                                    "rb", Vr60baro(f)), "ri", Vr60ins(f))
       ELSE ex

\* expectations for every aircraft after the call: fold ADS-B then Comm-B, tracking the model table for "posSet"
ContentAfter(e, aa, cc) ==
  LET RECURSIVE A(_, _, _)
      A(k, tb, ex) ==
        IF k > Len(aa) THEN <<tb, ex>>
        ELSE LET m == aa[k]
                 ntb == ApplyAdsb(tb, m, rx)
                 ex0 == IF m.addr \in DOMAIN ex THEN ex[m.addr] ELSE AllOf([k |-> "none"])
                 posSet == m.cls \in {"air", "surf"} /\ ~m.skip /\ ntb[m.addr].hasPos /\ ntb[m.addr].tpos = m.t /\ ntb[m.addr].pk # ""
                 ex1 == AdsbContent(ex0, e.adsb[k].f, posSet)
                 nex == (m.addr :> (IF Reached(m, e.adsb[k].f, tb, ntb) THEN UncContent(ex1, e.adsb[k].f) ELSE ex1)) @@ ex
             IN  A(k + 1, ntb, nex)
      RECURSIVE C(_, _)
      C(k, ex) ==
        IF k > Len(cc) THEN ex
        ELSE LET m == cc[k] IN
             IF m.addr \in DOMAIN ex THEN C(k + 1, (m.addr :> CommBContent(ex[m.addr], e.commb[k].f)) @@ ex) ELSE C(k + 1, ex)
      start == [a \in DOMAIN tab |-> [fl \in Fields |-> IF fl \in IntState /\ a \in DOMAIN cont THEN FromRec(cont[a][fl]) ELSE [k |-> "keep"]]]
      r == A(1, tab, start)
  IN  C(1, r[2])

FieldOK(x, rec, prev) ==
  CASE x.k = "keep" -> rec = prev
    [] x.k = "none" -> IsNone(rec)
    [] x.k = "str" -> IsStr(rec, x.v)
    [] x.k = "q" -> NumEq(rec, x.n, x.d)
    [] x.k = "ang" -> AngEq(rec, x.n)
    [] x.k = "trk" -> TrackOK(rec, x.we, x.sn)
    [] OTHER -> TRUE

ContentDiff(e, aa, cc) ==      \* "" when everything agrees, else the name of a field that differs
  LET ex == ContentAfter(e, aa, cc)
      bad == {<<k, fl>> \in (1..Len(e.post)) \X Fields :
                LET p == e.post[k] IN
                p.addr \in DOMAIN ex /\ ~FieldOK(ex[p.addr][fl], p.c[fl], IF p.addr \in DOMAIN cont THEN cont[p.addr][fl] ELSE [t |-> "n"])}
  IN  IF bad = {} THEN "" ELSE (CHOOSE b \in bad : TRUE)[2]
ContOf(post) == [a \in {post[k].addr : k \in 1..Len(post)} |-> post[CHOOSE k \in 1..Len(post) : post[k].addr = a].c]

Init == l = 1 /\ tab = <<>> /\ heard = <<>> /\ seen = {} /\ rx = <<FALSE, 0, 0>> /\ cont = <<>> /\ TLCSet(1, 0)

Reject(e, why) == PrintT(<<"REJECT", e.id, why>>) /\ TLCSet(1, TLCGet(1) + 1)

Next ==
  /\ l <= Len(Events)
  /\ l' = l + 1
  /\ LET e == Events[l] IN
     IF e.ev = "start" THEN
          /\ tab' = <<>> /\ heard' = <<>> /\ seen' = {} /\ rx' = <<e.rx[1] = 1, e.rx[2], e.rx[3]>> /\ cont' = <<>>
     ELSE LET aa == [k \in 1..Len(e.adsb) |-> AbsAdsb(e.adsb[k])]
              cc == [k \in 1..Len(e.commb) |-> AbsCommB(e.commb[k])]
              h == HeardNext(e, aa, cc)
              sn == seen \cup {aa[k].addr : k \in 1..Len(aa)}
              verdict ==
                IF e.exc = 1 THEN "process_raw_raised"
                ELSE IF \E k \in 1..Len(e.post) : e.post[k].wild = 1 THEN "table_holds_absurd_value"
                ELSE IF ~EncoderOK(e) THEN "oracle:harness_encoder_differs_from_spec"
                ELSE IF ~GateOK(e, sn) THEN (IF e.dup = 1 THEN "two_keys_for_one_address" ELSE "commb_or_unknown_aircraft_listed")
                ELSE IF ~FreshOK(e, h) THEN "staleness_bound"
                ELSE IF ~AccurateOK(e) THEN "stored_position_off_by_more_than_0.001_deg"
                ELSE IF ~ModelAgrees(Process(tab, aa, cc, e.tnow, rx), e.post)
                     THEN "drift:table_differs_from_model_" \o DriftKind(Process(tab, aa, cc, e.tnow, rx), e.post)
                ELSE IF ContentDiff(e, aa, cc) # "" THEN "drift:table_content_differs_from_model_" \o ContentDiff(e, aa, cc)
                ELSE "ok"
          IN  /\ (IF verdict = "ok" THEN TRUE ELSE Reject(e, verdict))
              /\ tab' = TableOf(e.post) /\ heard' = h /\ seen' = sn /\ rx' = rx
              /\ cont' = IF e.exc = 1 THEN cont ELSE ContOf(e.post)

Done == PrintT(<<"DONE", Len(Events), TLCGet("stats").diameter, TLCGet(1)>>)
=============================================================================
