------------------------------- MODULE MC_CPR -------------------------------
(* Role A for C03 / C04 / C05: inside the spec, decoding what the encoder    *)
(* produced gives the position back within one quantisation step, for        *)
(* positions chosen densely around every NL transition, the equator, the     *)
(* poles, +-87 deg, lon 0 / +-90 / +-180 and zone edges.  Every state        *)
(* carries the encoded fields, so the state dump is the vector set that is   *)
(* replayed into the implementation.                                         *)
EXTENDS CPR, TLC

CONSTANTS Mode,        \* "air" (C03), "surf" (C05), "local" (C04)
          DLatAbs,     \* absolute latitude offsets (BAM24 units) around each anchor (both signs are used)
          Stride,      \* keep anchors with index % Stride = Phase (quick tier thins the set)
          Phase,
          SeedLons,    \* extra longitudes (BAM24, 0..2^24-1)
          SeedLats     \* extra anchor latitudes, stored as BAM24 + 2^22 (0..2^23) -- seeded from VERIF_SEED

VARIABLE c

DLat == DLatAbs \cup {-d : d \in DLatAbs}

Pole == 4194304    \* 90 degrees in BAM24
Half == 8388608    \* 180 degrees

\* anchors: <<latitude BAM, tag>>
Anchors ==
  LET tr == {<<h * TransBAM[k], k>> : k \in 2..59, h \in {1, -1}}
      mid == {<<h * ((TransBAM[k] + TransBAM[k + 1]) \div 2), 100 + k>> : k \in 2..58, h \in {1, -1}}
      sp == {<<0, 200>>, <<Pole - 8, 201>>, <<-Pole + 8, 202>>, <<3 * 46603, 203>>, <<-2 * 46603, 204>>,
             <<46603 * 52, 205>>, <<-46603 * 33, 206>>}
  IN  \* every NL transition is always an anchor; the thinning by Stride / Phase applies to what is explored around it (Full)
      tr \cup {x \in mid \cup sp : x[2] % Stride = Phase \/ x[2] >= 200} \cup {<<x - Pole, 300>> : x \in SeedLats}

\* anchors explored with every offset / longitude / displacement; the other transitions get the lattice points next to them
\* (offsets -1, 0, 1 BAM), three longitudes and no displacement
Full(tag) == tag % Stride = Phase \/ tag \in {2, 3, 59} \/ tag >= 200

InRange(a) == a >= -Pole /\ a <= Pole

Lons(a) ==
  LET nl == NLat("air", 60, Encode("air", a, 0, 0).L)
      ni == Max(nl, 1)
      edge(z) == (z * P24) \div ni
      raw == {0, 1, -2, Pole, -Pole + 1, Half - 1, -Half, Half - 3, -Half + 2,
              edge(1), edge(1) - 2, edge(ni \div 2) + 1} \cup SeedLons
  IN  {IF o >= Half THEN o - P24 ELSE o : o \in raw}

Disp == IF Mode = "surf" THEN {<<0, 0>>, <<150, 0>>, <<-150, 0>>, <<0, 150>>, <<0, -150>>, <<100, -100>>}
        ELSE {<<0, 0>>, <<700, 0>>, <<-700, 0>>, <<0, 700>>, <<0, -700>>, <<500, 500>>, <<2, -3>>}

WrapLon(o) == IF o >= Half THEN o - P24 ELSE IF o < -Half THEN o + P24 ELSE o
Kind == IF Mode = "surf" THEN "surf" ELSE "air"

Init == c = [ph |-> "root"]

Next ==
  \/ /\ c.ph = "root"
     /\ \E an \in Anchors : c' = [ph |-> "anchor", a |-> an[1], tag |-> an[2]]
  \/ /\ c.ph = "anchor"
     /\ \E d \in DLat, o \in Lons(c.a), dp \in Disp :
          /\ (Full(c.tag) \/ (d \in {-1, 0, 1} /\ dp = <<0, 0>> /\ o \in {0, Half - 3} \cup SeedLons))
          /\ LET a0 == c.a + d
                 a1 == a0 + dp[1]
                 o1 == WrapLon(o + dp[2])
             IN  /\ InRange(a0) /\ InRange(a1)
                 /\ c' = [ph |-> "case", a0 |-> a0, o0 |-> o, a1 |-> a1, o1 |-> o1,
                          e0 |-> Encode(Kind, a0, o, 0), e1 |-> Encode(Kind, a1, o1, 1),
                          s0 |-> IF Mode = "local" THEN Encode("surf", a0, o, 0) ELSE <<>>,
                          s1 |-> IF Mode = "local" THEN Encode("surf", a1, o1, 1) ELSE <<>>]

(* ---- C03: airborne global decode ---- *)
AirCase(evenNewest) ==
  LET r == GlobalAir(c.e0, c.e1, evenNewest)
      a == IF evenNewest THEN c.a0 ELSE c.a1
      o == IF evenNewest THEN c.o0 ELSE c.o1
  IN  IF r.none THEN NLat("air", 60, c.e0.L) # NLat("air", 59, c.e1.L)
      ELSE /\ LatWithinBin("air", a, r.L, r.N)
           /\ LonWithinBin("air", o, r.M, r.ni)
           /\ r.L = (IF evenNewest THEN c.e0.L ELSE c.e1.L)

AirGlobalOK == (Mode = "air" /\ c.ph = "case") => AirCase(TRUE) /\ AirCase(FALSE)

(* ---- C05: surface global decode, receivers around the target ---- *)
\* receiver offsets in units of 360/2^20 degree: 40 NM = 0.667 deg = 1942 units; across equator / meridians
RxOffsets == {<<0, 0>>, <<1900, 0>>, <<-1900, 0>>, <<0, 1900>>, <<0, -1900>>, <<1300, -1300>>, <<-700, 900>>}
Rx20(x) == FloorDiv(x + 8, 16)          \* BAM24 -> nearest 2^20 grid point

SurfCase(evenNewest, off) ==
  LET a == IF evenNewest THEN c.a0 ELSE c.a1
      o == IF evenNewest THEN c.o0 ELSE c.o1
      r == Rx20(a) + off[1]
      \* E-W offset is a distance: scale the longitude offset so that it stays within ~40 NM, and < 45 deg
      ni == Max(c.e0.ni, 1)
      s == Rx20(o) + IF c.e0.ni >= 20 THEN off[2] ELSE (off[2] * 59) \div (3 * ni)
      res == GlobalSurf(c.e0, c.e1, evenNewest, r, s)
  IN  IF res.none THEN NLat("surf", 60, c.e0.L) # NLat("surf", 59, c.e1.L)
      ELSE /\ LatWithinBin("surf", a, res.L, res.N)
           /\ LonWithinBin("surf", o, res.M, res.ni)

SurfGlobalOK == (Mode = "surf" /\ c.ph = "case") =>
                  \A off \in RxOffsets : (Abs(Rx20(c.a0) + off[1]) <= 262144) => (SurfCase(TRUE, off) /\ SurfCase(FALSE, off))

(* ---- C04: local decode with a reference inside the half-zone box ---- *)
\* half a latitude zone is 3 deg (air) / 0.75 deg (surf) = 8738 / 2184 grid units; stay one bin inside
RefOffsets(kind, ni) ==
  LET hl == IF kind = "air" THEN 8700 ELSE 2170
      hz == ((IF kind = "air" THEN 524288 ELSE 131072) \div Max(ni, 1)) - 40      \* half a longitude zone, minus margin
  IN  {<<0, 0>>, <<hl, 0>>, <<-hl, 0>>, <<0, hz>>, <<0, -hz>>, <<hl, hz>>, <<-hl, -hz>>, <<hl, -hz>>, <<-hl, hz>>}

LocalCase(kind, a, o, e, i) ==
  \A off \in RefOffsets(kind, e.ni) :
     LET r == Rx20(a) + off[1]
         s == Rx20(o) + off[2]
         res == Local(kind, e, i, r, s)
     IN  Abs(r) <= 262144 =>
         /\ LatWithinBin(kind, a, res.L, res.N)
         /\ LonWithinBin(kind, o, res.M, res.ni)
         /\ res.L = e.L /\ res.ni = e.ni                 \* the unique zone solution: independent of the offset

LocalOK == (Mode = "local" /\ c.ph = "case") =>
   /\ LocalCase("air", c.a0, c.o0, c.e0, 0) /\ LocalCase("air", c.a1, c.o1, c.e1, 1)
   /\ LocalCase("surf", c.a0, c.o0, c.s0, 0) /\ LocalCase("surf", c.a1, c.o1, c.s1, 1)
=============================================================================
