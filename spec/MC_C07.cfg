INIT Init
NEXT Next
INVARIANT Gillham
INVARIANT Inj
INVARIANT UnitDistance
INVARIANT QCode
INVARIANT MCode
INVARIANT AllCodes
INVARIANT Squawk
CHECK_DEADLOCK FALSE
