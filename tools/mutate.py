#!/venv/bin/python
"""Mutation analysis of the checks: single-token mutants of the library (never of /repo itself - scratch worktrees only).

  tools/mutate.py --n 200 --seed 1 [--jobs 3] [--files 'decoder/bds/bds5*.py'] [--out mutation/report_1.json]

For every sampled mutant (integer / float literal +-, comparison boundary, == / !=, + / -, and / or) of a file that a
property is anchored in:  does it compile -> do the 36 pinned tests still pass (otherwise the suite already catches it: not
interesting) -> run the quick checks of the properties anchored in that file / function with VERIF_REPO=<scratch tree>
(role A skipped: the spec does not depend on the code) until one exits 1.
Result per mutant: tests | detected:<Cxx> | undetected | machinery:<Cxx>.  Undetected ones are either equivalent mutants or
gaps of the checks: they are what a human reads afterwards (mutation/README in DESIGN.md section 9.8).
"""
import argparse
import concurrent.futures as cf
import fnmatch
import io
import json
import os
import random
import re
import shutil
import subprocess
import sys
import tokenize

VERIF = os.path.dirname(os.path.dirname(os.path.abspath(__file__)))
REPO = "/repo"
CMP = {"<": "<=", "<=": "<", ">": ">=", ">=": ">", "==": "!=", "!=": "=="}


def sh(cmd, cwd=None, env=None, timeout=3600):
    try:
        p = subprocess.run(cmd, cwd=cwd, env=env, stdout=subprocess.PIPE, stderr=subprocess.STDOUT, text=True, timeout=timeout)
        return p.returncode, p.stdout
    except subprocess.TimeoutExpired:
        return 124, "timeout"


def anchors():
    """file -> {pid: text of its anchor entries}"""
    out = {}
    for line in open(os.path.join(VERIF, "properties.jsonl")):
        p = json.loads(line)
        a = p["anchors"]
        text = json.dumps(a)
        for f in a["files"]:
            if f.endswith(".py") or f.endswith(".pyx"):
                out.setdefault(f, {})[p["id"]] = text
    return out


def enclosing_functions(src):
    """line number -> name of the enclosing top-level or nested def"""
    names = {}
    stack = []
    for n, line in enumerate(src.split("\n"), 1):
        m = re.match(r"^(\s*)def\s+(\w+)", line) or re.match(r"^(\s*)c?p?def\s+[^(=]*?(\w+)\s*\(", line)
        if m:
            ind = len(m.group(1))
            while stack and stack[-1][0] >= ind:
                stack.pop()
            stack.append((ind, m.group(2)))
        elif line.strip() and not line.strip().startswith("#"):
            ind = len(line) - len(line.lstrip())
            while stack and stack[-1][0] >= ind and not line.lstrip().startswith(("\"", "'", ")")):
                stack.pop()
        names[n] = stack[-1][1] if stack else None
    return names


def points(src):
    """[(line, col, endcol, old, new, kind)]"""
    pts = []
    prev = None
    try:
        toks = list(tokenize.generate_tokens(io.StringIO(src).readline))
    except tokenize.TokenError:
        return pts
    depth_doc = False
    for t in toks:
        if t.type == tokenize.NUMBER:
            s = t.string
            if re.fullmatch(r"\d+", s):
                v = int(s)
                pts.append((t.start[0], t.start[1], t.end[1], s, str(v + 1), "int+1"))
                if v > 0:
                    pts.append((t.start[0], t.start[1], t.end[1], s, str(v - 1), "int-1"))
            elif re.fullmatch(r"\d*\.\d+|\d+\.\d*", s):
                v = float(s)
                pts.append((t.start[0], t.start[1], t.end[1], s, repr(v * 1.1 if v else 0.1), "float*1.1"))
            elif re.fullmatch(r"0[xX][0-9a-fA-F]+", s):
                v = int(s, 16)
                pts.append((t.start[0], t.start[1], t.end[1], s, hex(v ^ 1), "hex^1"))
        elif t.type == tokenize.OP and t.string in CMP:
            pts.append((t.start[0], t.start[1], t.end[1], t.string, CMP[t.string], "cmp"))
        elif t.type == tokenize.OP and t.string in "+-" and prev is not None and (
                prev.type in (tokenize.NUMBER, tokenize.NAME) and prev.string not in ("return", "in", "and", "or", "not", "if", "else", "is")
                or prev.string in (")", "]")):
            pts.append((t.start[0], t.start[1], t.end[1], t.string, "-" if t.string == "+" else "+", "addsub"))
        elif t.type == tokenize.NAME and t.string in ("and", "or"):
            pts.append((t.start[0], t.start[1], t.end[1], t.string, "or" if t.string == "and" else "and", "andor"))
        if t.type not in (tokenize.NL, tokenize.NEWLINE, tokenize.INDENT, tokenize.DEDENT, tokenize.COMMENT):
            prev = t
    return pts


def apply_point(src, pt):
    ln, c0, c1, old, new, _ = pt
    lines = src.split("\n")
    line = lines[ln - 1]
    assert line[c0:c1] == old, (line, pt)
    lines[ln - 1] = line[:c0] + new + line[c1:]
    return "\n".join(lines)


def main():
    ap = argparse.ArgumentParser()
    ap.add_argument("--n", type=int, default=100)
    ap.add_argument("--seed", type=int, default=1)
    ap.add_argument("--jobs", type=int, default=3)
    ap.add_argument("--files", default=None)
    ap.add_argument("--out", default=None)
    ap.add_argument("--maxchecks", type=int, default=4)
    a = ap.parse_args()
    rng = random.Random(a.seed)
    anc = anchors()
    files = sorted(f for f in anc if not a.files or fnmatch.fnmatch(f, "*" + a.files))
    cands = []
    for f in files:
        src = open(os.path.join(REPO, f)).read()
        fn = enclosing_functions(src)
        for pt in points(src):
            line = src.split("\n")[pt[0] - 1]
            if "import " in line or line.lstrip().startswith(("print", "warnings", "@")) or fn.get(pt[0]) is None:
                continue
            if fn.get(pt[0]) in ("_debug_msg", "__init__") and "rtlreader" in f:
                continue
            cands.append((f, pt, fn.get(pt[0])))
    rng.shuffle(cands)
    # spread over files: round-robin by file
    byf = {}
    for c in cands:
        byf.setdefault(c[0], []).append(c)
    picked = []
    while len(picked) < a.n and any(byf.values()):
        for f in sorted(byf):
            if byf[f] and len(picked) < a.n:
                picked.append(byf[f].pop())
    print("candidates=%d files=%d picked=%d" % (len(cands), len(files), len(picked)), flush=True)

    ntrees = max(a.jobs, 4)
    trees = []
    for k in range(ntrees):
        wt = "/tmp/mut_wt_%d_%d" % (os.getpid(), k)
        sh(["git", "-C", REPO, "worktree", "remove", "--force", wt])
        rc, out = sh(["git", "-C", REPO, "worktree", "add", "-q", "--detach", wt, "HEAD"])
        assert rc == 0, out
        # the tree under test is /repo's working tree, not only HEAD
        rc, diff = sh(["git", "-C", REPO, "diff", "HEAD"])
        if diff.strip():
            p = subprocess.run(["git", "-C", wt, "apply", "--whitespace=nowarn"], input=diff, text=True)
            assert p.returncode == 0
        cfile = os.path.join(REPO, "src/pyModeS/c_common.c")
        if os.path.exists(cfile):
            shutil.copy(cfile, os.path.join(wt, "src/pyModeS/c_common.c"))
        trees.append(wt)
    import queue
    free = queue.Queue()
    for t in trees:
        free.put(t)

    def pids_for(f, func):
        if f.endswith(".pyx"):
            return ["C15"]
        m = dict(anc[f])
        if "/decoder/bds/" in f:              # every Comm-B register module is exercised by C11 (fields) and C12 (format rules)
            m.setdefault("C11", "")
            m.setdefault("C12", "")
        hit = [p for p, text in m.items() if func and re.search(r"\b%s\b" % re.escape(func), text)]
        rest = [p for p in m if p not in hit]
        # properties whose anchors name the function first; among the others the generalists (C14, C15) come first: their
        # vectors reach every decoder
        rest = [p for p in rest if p in ("C14", "C15")] + [p for p in rest if p not in ("C14", "C15")]
        return (sorted(hit) + rest)[:max(a.maxchecks, len(hit))]

    def one(c):
        f, pt, func = c
        wt = free.get()
        path = os.path.join(wt, f)
        orig = open(path).read()
        res = {"file": f, "line": pt[0], "func": func, "kind": pt[5], "old": pt[3], "new": pt[4],
               "text": orig.split("\n")[pt[0] - 1].strip()}
        try:
            mut = apply_point(orig, pt)
            if f.endswith(".py"):
                try:
                    compile(mut, f, "exec")
                except SyntaxError:
                    res["result"] = "syntax"
                    return res
            open(path, "w").write(mut)
            env = dict(os.environ, PYTHONPATH=os.path.join(wt, "src"), PYTHONHASHSEED="0")
            if f.endswith(".py"):         # the .pyx is not built here: the suite cannot see it
                rc, out = sh(["/venv/bin/python", "-m", "pytest", "-q", "-x", "-p", "no:cacheprovider", "tests"], cwd=wt, env=env, timeout=600)
                if rc != 0:
                    res["result"] = "tests"
                    return res
            env2 = dict(os.environ, VERIF_REPO=wt, VERIF_SKIP_A="1", VERIF_CBUILD=os.path.join(wt, ".cbuild"))
            res["checks"] = {}
            res["result"] = "undetected"
            for pid in pids_for(f, func):
                rc, out = sh(["/venv/bin/python", os.path.join(VERIF, "check"), pid], env=env2, timeout=2400)
                res["checks"][pid] = rc
                if rc == 1:
                    res["result"] = "detected:" + pid
                    res["clauses"] = [l.strip() for l in out.splitlines() if "violation clause" in l][:3]
                    break
                if rc != 0:
                    res["result"] = "machinery:" + pid
                    res["tail"] = out[-600:]
                    break
                drift = [l for l in out.splitlines() if l.startswith("MODEL-DRIFT")]
                if drift:
                    res.setdefault("drift", []).extend(drift[:3])
            return res
        finally:
            open(path, "w").write(orig)
            shutil.rmtree(os.path.join(wt, ".cbuild"), ignore_errors=True)
            free.put(wt)

    results = []
    try:
        with cf.ThreadPoolExecutor(max_workers=a.jobs) as ex:
            for r in ex.map(one, picked):
                results.append(r)
                print("%-12s %s:%d %s  %s -> %s   | %s" % (r["result"], r["file"].replace("src/pyModeS/", ""), r["line"], r["func"],
                                                          r["old"], r["new"], r["text"][:90]), flush=True)
    finally:
        for wt in trees:
            sh(["git", "-C", REPO, "worktree", "remove", "--force", wt])
        sh(["git", "-C", REPO, "worktree", "prune"])
    summ = {}
    for r in results:
        k = r["result"].split(":")[0]
        summ[k] = summ.get(k, 0) + 1
    print("SUMMARY", json.dumps(summ))
    out = a.out or os.path.join(VERIF, "mutation", "report_seed%d.json" % a.seed)
    os.makedirs(os.path.dirname(out), exist_ok=True)
    head = subprocess.run(["git", "-C", REPO, "rev-parse", "--short", "HEAD"], stdout=subprocess.PIPE, text=True).stdout.strip()
    json.dump({"repo_head": head, "seed": a.seed, "n": len(results), "summary": summ, "mutants": results}, open(out, "w"), indent=1)
    return 0


if __name__ == "__main__":
    sys.exit(main())
