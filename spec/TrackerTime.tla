----------------------------- MODULE TrackerTime -----------------------------
(* The two time rules of the live table, shared by the model (Tracker) and the TLAPS proof (TrackerProofs).              *)
(* Times are in half seconds.  A message heard at t sets live = int(t) (whole seconds); an entry is dropped at the end   *)
(* of a call when t_now - live > cache_timeout = 60 s.                                                                   *)
EXTENDS Integers

LiveOf(t) == t \div 2
Evicted(live, tnow) == tnow - 2 * live > 120
=============================================================================
