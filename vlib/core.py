"""Check context: TLC runs, replay into the code, trace validation, verdicts, evidence."""
import concurrent.futures as cf
import json
import os
import random
import shutil
import subprocess
import sys
import tempfile
import time

from . import tlc, findings

VERIF = os.path.dirname(os.path.dirname(os.path.abspath(__file__)))
PY = sys.executable
NCPU = min(16, os.cpu_count() or 4)


class Ctx:
    def __init__(self, pid, tier, seed, level="model_checking"):
        self.pid = pid
        self.tier = tier
        self.seed = seed
        self.level = level
        self.t0 = time.time()
        self.tmp = tempfile.mkdtemp(prefix="verif_%s_" % pid)
        self.rng = random.Random(seed * 1000003 + int(pid[1:]))
        self.states = 0
        self.transitions = 0
        self.validated = 0          # events accepted by TLC
        self.evaluations = 0        # calls made into the library
        self.distinct = set()       # distinct abstract non-trivial cases
        self.samples = []
        self.tlc_cmds = []
        self.tlc_runs = []
        self.violations = []        # (signature-less) failing events
        self.known_hits = {}
        self.drift = 0
        self.notes = []
        self.lanes_used = set()
        self.assumptions = []
        self.extra = {}
        self.rule = ""
        self.exhaustive = False
        self._nrep = 0
        self.defer_guards = False

    @property
    def quick(self):
        return self.tier == "quick"

    def pick(self, q, t):
        return q if self.quick else t

    # ---------- Role A: model checking the spec ----------
    def model_check(self, module, cfg=None, cfg_text=None, what=None, workers=NCPU, **kw):
        if os.environ.get("VERIF_SKIP_A") and os.environ.get("VERIF_REPO") and "dump" not in kw and "simulate" not in kw:
            # mutation analysis of a scratch tree (tools/mutate.py): role A does not depend on the code, so it is not repeated
            # for every mutant.  Never honoured for /repo itself.
            self.extra["role_A_skipped"] = True
            return None
        r = tlc.run(module, cfg=cfg, cfg_text=cfg_text, workers=workers, **kw)
        tlc.require_ok(r, what or module)
        self.states += r.distinct
        self.transitions += r.generated
        self.tlc_cmds.append(r.cmd)
        self.tlc_runs.append({"module": module, "role": "A", "generated": r.generated,
                              "distinct": r.distinct, "depth": r.depth, "wall_s": round(r.wall, 2)})
        return r

    # ---------- Role B: replay vectors into the real code ----------
    def replay(self, vectors, lane="P", jobs=NCPU):
        """vectors: list of dicts with 'fn' (ids are assigned here). Returns events (with 'res')."""
        if not vectors:
            return []
        self._nrep += 1
        base = os.path.join(self.tmp, "rep%d_%s" % (self._nrep, lane))
        for v in vectors:
            if "id" not in v:
                self._next_id = getattr(self, "_next_id", 0) + 1
                v["id"] = self._next_id
            v.setdefault("lane", lane)
        with open(base + ".in", "w") as f:
            for v in vectors:
                f.write(json.dumps(v, separators=(",", ":")))
                f.write("\n")
        env = dict(os.environ)
        env["PYTHONPATH"] = VERIF + os.pathsep + env.get("PYTHONPATH", "")
        env["PYTHONHASHSEED"] = "0"
        p = subprocess.run([PY, "-m", "vlib.worker", lane, base + ".in", base + ".out", str(jobs)],
                           cwd=VERIF, env=env, stdout=subprocess.PIPE, stderr=subprocess.STDOUT, text=True)
        if p.returncode != 0:
            raise tlc.MachineryError("replay worker failed (lane %s):\n%s" % (lane, p.stdout[-3000:]))
        with open(base + ".out") as f:
            events = [json.loads(l) for l in f if l.strip()]
        os.unlink(base + ".in")
        os.unlink(base + ".out")
        self.evaluations += len(events)
        self.lanes_used.add(lane)
        if os.environ.get("VERIF_FUZZ_RESULTS") and os.environ.get("VERIF_REPO") and lane == "P":
            # robustness test of the validators (tools/fuzzverdicts.sh, never for /repo itself): every 5th recorded result is
            # replaced by wild values; the verdict operators must reject them, not overflow or crash
            import random as _r
            rr = _r.Random(int(os.environ["VERIF_FUZZ_RESULTS"]))
            wild = [2147483647, -2147483647, 1 << 30, -(1 << 30), 123456789, 0, -1, 65536, 99999999]

            def mangle(x):
                # only what the encoders can emit: any 32-bit integer under the tags "i" and "q" (n), any table scalars
                if isinstance(x, list):
                    return [mangle(y) for y in x]
                if isinstance(x, dict):
                    if x.get("t") == "i":
                        return dict(x, v=rr.choice(wild))
                    if x.get("t") == "q":
                        return dict(x, n=rr.choice(wild))
                    if x.get("t") == "obs":
                        return {k: (y if k == "t" else (rr.choice(wild[:2] + [2000000000, -2000000000]) if isinstance(y, int) else y)) for k, y in x.items()}
                    if "live" in x and "tpos" in x:
                        return dict(x, live=rr.choice([0, 499999999, -1, 123]), tpos=rr.choice([0, 499999999, 77]))
                    return {k: mangle(y) for k, y in x.items()}
                return x
            for e in events[::5]:
                e["res"] = mangle(e["res"])
        return events

    # ---------- Role C: TLC validates recorded events against the spec ----------
    def validate(self, events, module="Trace", shards=None, timeout=1800, cfg="Trace.cfg", env=None):
        """Returns list of (event, clause) that TLC rejected. Every event is judged (total verdicts)."""
        if not events:
            return []
        n = len(events)
        shards = shards or max(1, min(NCPU, n // 1500))
        per = (n + shards - 1) // shards
        files = []
        for s in range(shards):
            part = events[s * per:(s + 1) * per]
            if not part:
                continue
            fn = os.path.join(self.tmp, "tr_%d_%d.ndjson" % (id(events) % 100000, s))
            with open(fn, "w") as f:
                for e in part:
                    f.write(json.dumps(e, separators=(",", ":")))
                    f.write("\n")
            files.append((fn, part))

        def one(item):
            fn, part = item
            e2 = {"TRACE_FILE": fn}
            if env:
                e2.update(env)
            r = tlc.run(module, cfg=cfg, workers=1, env=e2, timeout=timeout)
            return r, part, fn

        rejected = []
        byid = {e["id"]: e for e in events}
        with cf.ThreadPoolExecutor(max_workers=NCPU) as ex:
            for r, part, fn in ex.map(one, files):
                os.unlink(fn)
                if not r.ok:
                    raise tlc.MachineryError("trace validation run failed (%s)\n%s" % (module, r.error_text or r.out[-3000:]))
                done = [p for p in r.prints if p[0] == "DONE"]
                if not done or done[-1][1] != len(part) or done[-1][2] - 1 != len(part):
                    raise tlc.MachineryError("trace not fully consumed: %r vs %d events\n%s" % (done, len(part), r.out[-2000:]))
                rej = [p for p in r.prints if p[0] == "REJECT"]
                if len(rej) != done[-1][3]:
                    raise tlc.MachineryError("REJECT lines (%d) disagree with counter (%d)" % (len(rej), done[-1][3]))
                for p in rej:
                    rejected.append((byid[p[1]], p[2]))
                self.states += r.distinct
                self.transitions += r.generated
                self.validated += len(part) - len(rej)
                if len(self.tlc_cmds) < 12:
                    self.tlc_cmds.append("TRACE_FILE=<events.ndjson> " + r.cmd)
                self.tlc_runs.append({"module": module, "role": "C", "events": len(part), "rejected": len(rej),
                                      "wall_s": round(r.wall, 2)})
        return rejected

    def check_events(self, vectors, lane="P", module="Trace", cfg="Trace.cfg", case_of=None, pid=None, shards=None):
        """replay + validate + judge in one go. case_of(event) -> hashable abstract case or None (trivial)."""
        ev = self.replay(vectors, lane)
        if case_of:
            for e in ev:
                c = case_of(e)
                if c is not None:
                    self.distinct.add(hash(c))        # hashes, not the tuples themselves: thorough tiers hold millions
        if ev and len(self.samples) < 6:
            self.samples.append(ev[self.rng.randrange(len(ev))])
        rej = self.validate(ev, module=module, cfg=cfg, shards=shards)
        self.judge(rej, pid=pid)
        return ev, rej

    # ---------- verdicts ----------
    def judge(self, rejected, pid=None):
        pid = pid or self.pid
        for e, clause in rejected:
            if self.defer_guards and clause.endswith("_guard"):
                # domain/guard behaviour is C14's statement, not this property's: counted, judged there
                self.extra["guard_mismatches_left_to_C14"] = self.extra.get("guard_mismatches_left_to_C14", 0) + 1
                self.validated += 1
                continue
            if clause.startswith("drift:"):
                # differs from the model but the property's own predicate holds
                self.drift += 1
                self.drift_kinds = getattr(self, "drift_kinds", {})
                self.drift_kinds[clause] = self.drift_kinds.get(clause, 0) + 1
                self.validated += 1
                continue
            if clause.startswith("note:"):
                # an observation about the input data (e.g. a recorded frame whose address column disagrees with the
                # address its own parity yields: a corrupted recording), neither the code's nor the model's business
                self.extra.setdefault("notes_by_clause", {})
                self.extra["notes_by_clause"][clause] = self.extra["notes_by_clause"].get(clause, 0) + 1
                self.validated += 1
                continue
            if clause.startswith("oracle:") or clause == "unknown_fn":
                raise tlc.MachineryError("spec self-check failed: %s on event %r" % (clause, e))
            hit = findings.match(pid, e, clause)
            if hit is not None:
                self.known_hits.setdefault(hit["id"], {"finding": hit, "count": 0, "example": e})["count"] += 1
            else:
                self.violations.append({"property": pid, "clause": clause, "event": e})

    def violation(self, clause, case, pid=None):
        """A violation established outside the event pipeline (stateful checks)."""
        pid = pid or self.pid
        hit = findings.match(pid, case, clause)
        if hit is not None:
            self.known_hits.setdefault(hit["id"], {"finding": hit, "count": 0, "example": case})["count"] += 1
        else:
            self.violations.append({"property": pid, "clause": clause, "event": case})

    # ---------- wrap up ----------
    def finish(self):
        wall = time.time() - self.t0
        for hid, h in sorted(self.known_hits.items()):
            print("KNOWN-FINDING: property=%s %s [%s] (%d failing cases this run)" % (
                self.pid, h["finding"]["what"], hid, h["count"]))
        for k, n in sorted(getattr(self, "drift_kinds", {}).items()):
            print("MODEL-DRIFT: property=%s %s (%d events; property predicate holds, model differs)" % (self.pid, k, n))
        code = 0
        mine = [v for v in self.violations]
        if mine:
            os.makedirs(os.path.join(VERIF, "replay"), exist_ok=True)
            rdir = os.path.join(VERIF, "replay") if ("VERIF_REPO" not in os.environ and not getattr(self, "replay_mode", False)) else os.path.join(tempfile.gettempdir(), "verif_scratch_replay")
            os.makedirs(rdir, exist_ok=True)
            path = os.path.join(rdir, "%s-%s-%d.json" % (self.pid, self.tier, self.seed))
            with open(path, "w") as f:
                json.dump({"property": self.pid, "tier": self.tier, "seed": self.seed,
                           "count": len(mine), "cases": mine[:200]}, f, indent=1)
            by = {}
            for v in mine:
                by.setdefault(v["clause"], []).append(v)
            for clause, vs in sorted(by.items()):
                e = vs[0]["event"]
                print("  violation clause=%s count=%d e.g. fn=%s id=%s" % (clause, len(vs), e.get("fn", e.get("ev")), e.get("id")))
            print("VIOLATION property=%s replay=%s" % (self.pid, path))
            code = 1
        cov = {
            "states": self.states,
            "transitions": self.transitions,
            "traces_validated_against_impl": self.validated,
            "evaluations": self.evaluations,
            "distinct_nontrivial": len(self.distinct),
            "rule": self.rule,
            "samples": self.samples[:6] or ["(no events)"],
            "exhaustive": self.exhaustive,
            "lanes": sorted(self.lanes_used),
            "model_drift": self.drift,
            "known_findings_hit": {k: v["count"] for k, v in self.known_hits.items()},
            "tlc_runs": self.tlc_runs[:60],
            "checker_cmd": self.tlc_cmds[0] if self.tlc_cmds else "",
            "notes": self.notes,
        }
        cov.update(self.extra)
        evd = {
            "property_id": self.pid, "tier": self.tier, "seed": self.seed, "level": self.level,
            "coverage": cov, "assumptions": self.assumptions, "wall_s": round(wall, 2),
            "violations": len(mine),
        }
        # evidence under /verif/evidence always describes /repo itself; experiments against a scratch tree
        # (VERIF_REPO=...) write theirs to a scratch directory instead
        evdir = os.path.join(VERIF, "evidence") if ("VERIF_REPO" not in os.environ and not getattr(self, "replay_mode", False)) else os.path.join(
            tempfile.gettempdir(), "verif_scratch_evidence")
        os.makedirs(evdir, exist_ok=True)
        with open(os.path.join(evdir, self.pid + ".json"), "w") as f:
            json.dump(evd, f, indent=1)
        print("%s %s: states=%d transitions=%d events_validated=%d evaluations=%d distinct=%d drift=%d known=%d violations=%d wall=%.1fs" % (
            self.pid, self.tier, self.states, self.transitions, self.validated, self.evaluations,
            len(self.distinct), self.drift, sum(h["count"] for h in self.known_hits.values()), len(mine), wall))
        shutil.rmtree(self.tmp, ignore_errors=True)
        return code

    def cleanup(self):
        shutil.rmtree(self.tmp, ignore_errors=True)
