#!/bin/bash
# Re-runs every registered quick check against /repo itself and validates the evidence files it writes.
# usage: tools/refresh_evidence.sh [tier]        (default quick)
cd "$(dirname "$0")/.." || exit 2
tier=${1:-quick}
unset VERIF_REPO
rc=0
for p in C01 C02 C03 C04 C05 C06 C07 C08 C09 C10 C11 C12 C13 C14 C15 C16 C17 C18 C19 C20; do
  out=$(/venv/bin/python ./check $p --tier $tier 2>&1); ec=$?
  echo "$out" | grep -E "KNOWN-FINDING|MODEL-DRIFT|VIOLATION|MACHINERY" | cut -c1-200
  echo "$out" | tail -1
  [ $ec -ne 0 ] && rc=1 && echo "!! $p exit $ec"
done
python3-vt - <<'PY'
import json, glob, jsonschema
sch = json.load(open('/root/.vp/EVIDENCE.schema.json'))
for p in sorted(glob.glob('/verif/evidence/C*.json')):
    e = json.load(open(p))
    jsonschema.validate(e, sch)
    c = e['coverage']
    assert e['violations'] == 0, p
    print(e['property_id'], e['tier'], 'states', c['states'], 'validated', c['traces_validated_against_impl'], 'evals', c['evaluations'], 'wall', e['wall_s'])
print('all evidence files valid')
PY
exit $rc
