-------------------------------- MODULE Trace -------------------------------
(* Role C: validates events recorded from the implementation (stateless      *)
(* decoders).  One TLC state per event; verdicts are total: a rejected event *)
(* is printed (REJECT, id, failing clause) and the run continues.            *)
EXTENDS TV_Core, TV_Alt, TV_ADSB, TLC, Json, IOUtils

Events == ndJsonDeserialize(IOEnv.TRACE_FILE)

VARIABLES l, nbad, canon

Verdict(e) ==
  CASE e.fn = "crc" -> V_crc(e)
    [] e.fn = "crc_legacy" -> V_crc(e)
    [] e.fn = "icao" -> V_icao_rel(e, canon)
    [] e.fn = "adsb.icao" -> V_icao_rel(e, canon)
    [] e.fn = "allcall.icao" -> V_allcall_icao(e)
    [] e.fn = "common.altitude" -> V_common_altitude(e)
    [] e.fn = "common.altcode" -> V_altcode(e)
    [] e.fn = "surv.altitude" -> V_surv_altitude(e)
    [] e.fn = "adsb.altitude" -> V_adsb_altitude(e)
    [] e.fn = "adsb.altitude05" -> V_altitude05(e)
    [] e.fn = "common.squawk" -> V_squawk(e)
    [] e.fn = "common.idcode" -> V_idcode(e)
    [] e.fn = "surv.identity" -> V_surv_identity(e)
    [] e.fn = "adsb.emergency_squawk" -> V_emergency_squawk(e)
    [] e.fn = "surv.fs" -> V_surv_fs(e)
    [] e.fn = "surv.dr" -> V_surv_dr(e)
    [] e.fn = "surv.um" -> V_surv_um(e)
    [] e.fn = "common.fs" -> V_common_fs(e)
    [] e.fn = "common.dr" -> V_common_dr(e)
    [] e.fn = "common.um" -> V_common_um(e)
    [] e.fn = "allcall.capability" -> V_capability(e)
    [] e.fn = "allcall.interrogator" -> V_interrogator(e)
    [] e.fn = "adsb.callsign" -> V_callsign(e)
    [] e.fn = "adsb.category" -> V_category(e)
    [] e.fn = "adsb.velocity" -> V_velocity(e)
    [] e.fn = "adsb.airborne_velocity" -> V_airborne_velocity(e)
    [] e.fn = "adsb.surface_velocity" -> V_surface_velocity(e)
    [] e.fn = "adsb.speed_heading" -> V_speed_heading(e)
    [] e.fn = "adsb.altitude_diff" -> V_altitude_diff(e)
    [] e.fn = "adsb.emergency_state" -> V_emergency_state(e)
    [] e.fn = "adsb.is_emergency" -> V_is_emergency(e)
    [] e.fn = "adsb.selected_altitude" -> V_selected_altitude(e)
    [] e.fn = "adsb.target_altitude" -> V_target_altitude(e)
    [] e.fn = "adsb.vertical_mode" -> V_vertical_mode(e)
    [] e.fn = "adsb.horizontal_mode" -> V_horizontal_mode(e)
    [] e.fn = "adsb.selected_heading" -> V_selected_heading(e)
    [] e.fn = "adsb.target_angle" -> V_target_angle(e)
    [] e.fn = "adsb.baro_pressure_setting" -> V_baro_pressure_setting(e)
    [] e.fn = "adsb.autopilot" -> V_autopilot(e)
    [] e.fn = "adsb.vnav_mode" -> V_vnav_mode(e)
    [] e.fn = "adsb.altitude_hold_mode" -> V_altitude_hold_mode(e)
    [] e.fn = "adsb.approach_mode" -> V_approach_mode(e)
    [] e.fn = "adsb.lnav_mode" -> V_lnav_mode(e)
    [] e.fn = "adsb.tcas_operational" -> V_tcas_operational(e)
    [] e.fn = "adsb.tcas_ra" -> V_tcas_ra(e)
    [] e.fn = "adsb.emergency_status" -> V_emergency_status(e)
    [] e.fn = "adsb.version" -> V_version(e)
    [] e.fn = "adsb.nic_s" -> V_nic_s(e)
    [] e.fn = "adsb.nic_a_c" -> V_nic_a_c(e)
    [] e.fn = "adsb.nic_b" -> V_nic_b(e)
    [] e.fn = "adsb.nac_p" -> V_nac_p(e)
    [] e.fn = "adsb.nac_v" -> V_nac_v(e)
    [] e.fn = "adsb.nuc_v" -> V_nuc_v(e)
    [] e.fn = "adsb.sil" -> V_sil(e)
    [] e.fn = "adsb.nuc_p" -> V_nuc_p(e)
    [] e.fn = "adsb.nic_v1" -> V_nic_v1(e)
    [] e.fn = "adsb.nic_v2" -> V_nic_v2(e)
    [] e.fn = "commb.cs20" -> V_cs20(e)
    [] e.fn = "monotone" -> V_monotone(e)
    [] OTHER -> "unknown_fn"

Init == l = 1 /\ nbad = 0 /\ canon = <<>> /\ TLCSet(1, 0)

Next ==
  /\ l <= Len(Events)
  /\ LET e == Events[l]
         v == Verdict(e)
     IN  /\ (IF v = "ok" THEN TRUE ELSE PrintT(<<"REJECT", e.id, v>>) /\ TLCSet(1, TLCGet(1) + 1))
         /\ nbad' = IF v = "ok" THEN nbad ELSE nbad + 1
  /\ l' = l + 1
  /\ canon' = IF Events[l].fn \in {"icao", "adsb.icao"} THEN CanonNext(Events[l], canon) ELSE canon

\* acceptance: every line consumed (diameter - 1 = number of events)
Done == PrintT(<<"DONE", Len(Events), TLCGet("stats").diameter, TLCGet(1)>>)
=============================================================================
