"""C05 - surface CPR global decode selects the solution nearest the receiver.

A: MC_CPR (Mode = "surf"): surface encodings of the position set (incl. within a degree of the equator, lon 0, +-90,
   +-180), displacements <= 0.2 NM, seven receiver offsets up to ~40 NM (incl. across the equator / Greenwich /
   antimeridian), both time orders: GlobalSurf is within one bin of the newer position, or None exactly when NL differs.
B/C: the same cases as TC5-8 frames -> position(..., lat_ref, lon_ref) / surface_position() -> TLC (TV_CPR.SurfPair);
   position() without a receiver location must refuse.
"""
from .. import cprgen
from . import c01

RX = [(0, 0), (1900, 0), (-1900, 0), (0, 1900), (0, -1900), (1300, -1300), (-700, 900)]


def vectors(ctx, states):
    rng = ctx.rng
    V = []
    k = 0
    if ctx.quick:
        states = states[ctx.seed % 2::2]
    for c in states:
        k += 1
        fe = cprgen.frame(rng, rng.randint(5, 8), 0, c["e0"]["yz"], c["e0"]["xz"])
        fo = cprgen.frame(rng, rng.randint(5, 8), 1, c["e1"]["yz"], c["e1"]["xz"])
        truth = [[c["a0"], c["o0"]], [c["a1"], c["o1"]]]
        # thorough: all seven receiver offsets for every third case, three (rotating) for the others
        offs = RX if (not ctx.quick and k % 3 == 0) else [RX[0], RX[1 + k % 6], RX[1 + (k // 6) % 6]]
        for off in offs:
            if abs(cprgen.rx20(c["a0"]) + off[0]) > 262144:
                continue
            for evn in ((0, 1) if not ctx.quick else (rng.randrange(2),)):
                a, o = truth[0] if evn else truth[1]
                ni = max(c["e0"]["ni"], 1)
                r = cprgen.rx20(a) + off[0]
                s = cprgen.rx20(o) + (off[1] if c["e0"]["ni"] >= 20 else (off[1] * 59) // (3 * ni))
                te, to = (5, 1) if evn else (1, 1 + k % 2)
                tq = 1 if rng.random() < 0.25 else 0      # drawn independently (see C03)
                if tq:
                    te, to = (4 * 3 + 2, 4 * 3 + 1) if evn else (4 * 3 + 1, 4 * 3 + 1 + k % 2)
                fn = "adsb.position" if (k + evn) % 2 else "adsb.surface_position"
                V.append({"fn": fn, "f0": fe, "f1": fo, "t0": te, "t1": to, "ht": 1, "truth": truth, "kind": "surf",
                          "hasref": 1, "r": r, "s": s, "dt": rng.choice([0, 0, 0, 0, 0, 0, 1, 1, 2, 3]), "tq": tq,
                          "case": [c["a0"], c["o0"], c["a1"] - c["a0"], c["o1"] - c["o0"], off[0], off[1], evn]})
        if k % 25 == 0:
            V.append({"fn": "adsb.position", "f0": fe, "f1": fo, "t0": 1, "t1": 2, "ht": 0, "truth": truth, "kind": "surf",
                      "hasref": 0, "r": 0, "s": 0, "dt": 0, "case": [c["a0"], c["o0"], "noref"]})
    return V


def case_of(e):
    return (e["fn"], tuple(e["case"]))


def run(ctx):
    ctx.defer_guards = True
    ctx.rule = ("surface encodings of the C03 position set; 6 displacements <= 0.2 NM; receivers at 7 offsets up to ~40 NM "
                "(longitude offset scaled so it stays < 45 degrees at high latitude) incl. the far side of the equator, of lon 0 "
                "and of +-180; both time orders; documented argument order (even, odd); distinct = (fn, a, o, da, do, rx offset, newest)")
    ctx.extra["model_cases"] = 0
    for phase in cprgen.phases(ctx):
        states = cprgen.run_model(ctx, "surf", "C05 surface global decode" + " (anchor shard %d/4)" % phase, phase)
        ctx.extra["model_cases"] += len(states)
        # bounded memory: replay and validate the shard in slices of 25 000 model cases (thorough)
        step = ctx.pick(200000, 25000)
        for lo in range(0, len(states), step):
            ctx.check_events(vectors(ctx, states[lo:lo + step]), case_of=case_of)
        del states


replay = c01.replay
