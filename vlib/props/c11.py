"""C11 - Comm-B register fields decode to the encoded engineering values.

A: MC_CommB: (value,width)-list layouts vs absolute bit positions for every raw value of every field x status x sign;
   fields tile the 56 MB bits.
B/C: for every field: every raw value x status x sign embedded in MB with three fillings of all other bits (zeros, ones,
   seeded) under DF20/DF21 with seeded header and parity -> the 40 pyModeS.commb names + bds53.* -> TLC (TV_CommB);
   the result must not depend on the filling (independence is implied: TLC recomputes it from the bits of each frame);
   identity of the commb.* names with the bdsXX functions.
"""
from .. import gen
from . import c01

# name -> (status bit or None, sign bit or None, msb, lsb) in MB numbering
FIELDS = {
    "ovc10": (None, None, 15, 15), "selalt40mcp": (1, None, 2, 13), "selalt40fms": (14, None, 15, 26), "p40baro": (27, None, 28, 39),
    "wind44": (5, None, 6, 23), "temp44": (None, 24, 25, 34), "p44": (35, None, 36, 46), "turb44": (47, None, 48, 49),
    "hum44": (50, None, 51, 56), "turb45": (1, None, 2, 3), "ws45": (4, None, 5, 6), "mb45": (7, None, 8, 9),
    "ic45": (10, None, 11, 12), "wv45": (13, None, 14, 15), "temp45": (16, 17, 18, 26), "p45": (27, None, 28, 38),
    "rh45": (39, None, 40, 51), "roll50": (1, 2, 3, 11), "trk50": (12, 13, 14, 23), "gs50": (24, None, 25, 34),
    "rtrk50": (35, 36, 37, 45), "tas50": (46, None, 47, 56), "hdg53": (1, 2, 3, 12), "ias53": (13, None, 14, 23),
    "mach53": (24, None, 25, 33), "tas53": (34, None, 35, 46), "vr53": (47, 48, 49, 56), "hdg60": (1, 2, 3, 12),
    "ias60": (13, None, 14, 23), "mach60": (24, None, 25, 34), "vr60baro": (35, 36, 37, 45), "vr60ins": (46, 47, 48, 56),
    "alt40mcp": (1, None, 2, 13), "alt40fms": (14, None, 15, 26),
}


def vectors(ctx):
    rng = ctx.rng
    V = []
    for name, (st, sg, msb, lsb) in FIELDS.items():
        w = lsb - msb + 1
        vals = range(1 << w)
        if w > 12:
            vals = sorted(set(list(range(0, 1 << w, ctx.pick(61, 7))) + [0, 1, (1 << w) - 1, 1 << (w - 1)] +
                              [rng.randrange(1 << w) for _ in range(300)]))
        for x in vals:
            for stv in ((0, 1) if st else (1,)):
                for sgv in ((0, 1) if sg else (0,)):
                    fills = (0, 1, 2) if (x % ctx.pick(4, 1) == 0 or x < 4 or x > (1 << w) - 4) else (2,)
                    for fill in fills:
                        df = 20 + ((x + fill) % 2)
                        f = gen.rand_frame_df(rng, df)
                        if fill == 0:
                            f = f[:4] + [0] * 7 + f[11:]
                        elif fill == 1:
                            f = f[:4] + [255] * 7 + f[11:]
                        f = gen.set_bits(f, 32 + msb, 32 + lsb, x)
                        if st:
                            f = gen.set_bits(f, 32 + st, 32 + st, stv)
                        if sg:
                            f = gen.set_bits(f, 32 + sg, 32 + sg, sgv)
                        if (x + fill + stv) % 9 == 0:
                            # reply from a boundary address: the AP field equals the plain parity (000000) / its complement
                            f = gen.with_parity(f[:11], rng.choice([0, 0xFFFFFF]))
                        V.append({"fn": "commb." + name, "frame": gen.selfsim_tail(rng, f, 0.05), "case": [name, x, stv, sgv, fill]})
    # cap17: every single capability bit, pairs, random
    for k in range(24):
        f = gen.rand_frame_df(rng, 20)
        f = f[:4] + [0] * 7 + f[11:]
        f = gen.set_bits(f, 33 + k, 33 + k, 1)
        V.append({"fn": "commb.cap17", "frame": f, "case": ["cap17", k]})
    for _ in range(ctx.pick(300, 5000)):
        V.append({"fn": "commb.cap17", "frame": gen.rand_frame_df(rng, rng.choice([20, 21])), "case": ["cap17r", len(V)]})
    # recorded Comm-B traffic through every field decoder
    names = list(FIELDS) + ["cap17"]
    for kind in ("df20", "df21"):
        for ts, msg, ic in gen.sample_frames(kind)[:ctx.pick(400, 100000)]:
            f = list(bytes.fromhex(msg))
            for name in (names if not ctx.quick else rng.sample(names, 6)):
                V.append({"fn": "commb." + name, "frame": f, "case": ["smp", name, len(V)]})
    return V


def identity_check(ctx):
    """'the functions reachable as pyModeS.commb.* are the same decoders' - object identity, observed directly"""
    from .. import lanes
    pm = lanes.setup("P")
    import importlib
    bad = []
    n = 0
    for name in pm.commb.__all__:
        reg = name[-2:] if name[-2:].isdigit() else None
        for cand in ("bds10", "bds17", "bds20", "bds30", "bds40", "bds44", "bds45", "bds50", "bds60"):
            m = importlib.import_module("pyModeS.decoder.bds." + cand)
            if hasattr(m, name):
                n += 1
                if getattr(m, name) is not getattr(pm.commb, name):
                    bad.append(name)
                break
        else:
            bad.append(name + ":not found in any bds module")
    ctx.extra["commb_names_checked_for_identity"] = n
    for b in bad:
        ctx.violation("commb_name_is_not_the_register_decoder", {"fn": "commb." + b, "id": 0})


def case_of(e):
    return tuple(e["case"])


def run(ctx):
    ctx.rule = ("for each of 34 field decoders: every raw value (<= 2^12; 18-bit wind44 sampled) x status x sign, with the other 40+ "
                "MB bits all-zero / all-one / seeded and header+parity seeded, DF20 and DF21; cap17 bits; recorded Comm-B traffic "
                "through every decoder; distinct = (field, raw, status, sign, filling)")
    cfg = open(__import__("os").path.join(__import__("vlib.tlc", fromlist=["x"]).SPEC_DIR, "MC_CommB.cfg")).read()
    cfg = cfg.replace("XStride = 7", "XStride = %d" % ctx.pick(7, 1))
    ctx.model_check("MC_CommB", cfg_text=cfg, what="Comm-B layouts")
    identity_check(ctx)
    ctx.check_events(vectors(ctx), case_of=case_of)


replay = c01.replay
