"""Known findings: /verif/known_findings.json (committed; never written at run time).

An entry is {"id", "properties": [...], "status": "open"|"fixed", "signature": <name>, "what", ...}.
Only *open* entries suppress anything, and only for failing cases their signature predicate
accepts -- a different failure of the same property is still a VIOLATION.
"""
import json
import os

_PATH = os.path.join(os.path.dirname(os.path.dirname(os.path.abspath(__file__))), "known_findings.json")

SIGNATURES = {}


def sig(name):
    def deco(f):
        SIGNATURES[name] = f
        return f
    return deco


def load():
    if not os.path.exists(_PATH):
        return []
    with open(_PATH) as f:
        return json.load(f).get("findings", [])


_CACHE = None


def match(pid, case, clause):
    global _CACHE
    if _CACHE is None:
        _CACHE = load()
    for fd in _CACHE:
        if fd.get("status") != "open" or pid not in fd.get("properties", []):
            continue
        pred = SIGNATURES.get(fd["signature"])
        if pred is not None and pred(case, clause):
            return fd
    return None


# ---- signature predicates (narrow: function + input class) ----
from . import sigs  # noqa: E402,F401  (registers predicates)
