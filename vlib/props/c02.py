"""C02 - ICAO address recovery, exact and canonical.

A: MC_C02: Icao(Build(df, addr, payload)) = addr for the nine address-bearing formats, none otherwise
   (all DF 0..31, both lengths, unit/extreme/seeded addresses, 4 payload patterns).
B: the frames of the model's state dump, rendered as upper / lower / mixed-case hex -> icao, adsb.icao,
   allcall.icao in the real code.
C: those events + recorded traffic (with the file's own address column as an independent cross-check
   of the spec) + seeded random frames, validated by TLC (Trace: V_icao_rel, incl. the relational
   'one key per address' monitor over the `canon` variable).
"""
import os
import random

from .. import gen, tlaval, enc


def case_text(b, cs, rng):
    s = bytes(b).hex()
    if cs == "U":
        s = s.upper()
    elif cs == "M":
        s = "".join(c.upper() if rng.random() < 0.5 else c for c in s)
    return enc.text(s)


def vectors(ctx, states):
    rng = ctx.rng
    V = []
    for st in states:
        c = st["c"]
        if c.get("df", -1) < 0:
            continue
        for cs in ("U", "L", "M"):
            t = case_text(c["frame"], cs, rng)
            V.append({"fn": "icao", "text": t, "rel": 1, "case": cs, "df": c["df"], "a": c["a"]})
            if cs != "U" or c["p"] == 3:
                V.append({"fn": "adsb.icao", "text": t, "rel": 1, "case": cs, "df": c["df"], "a": c["a"]})
            if c["p"] == 0 or c["df"] == 11:
                V.append({"fn": "allcall.icao", "text": t, "rel": 0, "case": cs, "df": c["df"], "a": c["a"]})
    # recorded traffic: the file carries the address it belongs to
    for kind in ("adsb", "df20", "df21"):
        for ts, msg, ic in gen.sample_frames(kind)[:ctx.pick(500, 100000)]:
            cs = rng.choice("ULM")
            V.append({"fn": "icao", "text": case_text(bytes.fromhex(msg), cs, rng), "rel": 0, "case": cs,
                      "df": bytes.fromhex(msg)[0] >> 3, "a": int(ic, 16), "want": enc.text(ic.upper())})
    # frames whose address-parity / parity field repeats an earlier part of the frame (every offset, every format)
    for df in range(32):
        for f in gen.selfsimilar(rng, df if df < 24 else 24):
            f[0] = (df << 3) | (f[0] & 7)
            cs = rng.choice("ULM")
            V.append({"fn": rng.choice(["icao", "icao", "adsb.icao", "allcall.icao"]), "text": case_text(f, cs, rng),
                      "rel": 0, "case": cs, "df": df, "a": -1})
    # frames whose leading bytes are a complete codeword (the running remainder is zero part-way), zero bytes next, then more
    for k in range(ctx.pick(600, 40000)):
        df = rng.choice([0, 4, 5, 16, 20, 21, 20, 21, 11, 17])
        n = 14 if (df >= 16 or k % 3 == 0) else 7
        cut = rng.randrange(4, n)
        head = gen.with_parity([(df << 3) | rng.randrange(8)] + [rng.randrange(256) for _ in range(cut - 4)])
        rest = [0 if rng.random() < 0.5 else rng.randrange(256) for _ in range(n - cut)]
        if rest and k % 2:
            rest[0] = 0
        f = head + rest
        cs = rng.choice("ULM")
        V.append({"fn": "icao", "text": case_text(f, cs, rng), "rel": 0, "case": cs, "df": df, "a": -1})
    # seeded random frames, random case
    for k in range(ctx.pick(6000, 400000)):
        f = gen.rand_frame(rng)
        cs = rng.choice("ULM")
        V.append({"fn": rng.choice(["icao", "icao", "adsb.icao", "allcall.icao"]), "text": case_text(f, cs, rng),
                  "rel": 0, "case": cs, "df": f[0] >> 3, "a": -1})
    return V


def case_of(e):
    return (e["fn"], e["df"], e["case"], bytes(e["text"]).upper() if e["a"] == -1 else e["a"], len(e["text"]))


def run(ctx):
    ctx.rule = ("frames built by the spec's transponder model for DF 0..31 x {56,112} bits x 4 payload patterns x "
                "26+ addresses, each as upper/lower/mixed-case hex, through icao/adsb.icao/allcall.icao; recorded "
                "traffic with its address column; seeded random frames. distinct = (fn, DF, case, address|frame, length)")
    ctx.assumptions += ["canonical form in the model is upper-case; a consistently different canonical form is reported "
                        "as MODEL-DRIFT, two different strings for one address as VIOLATION"]
    seeded = sorted({random.Random(ctx.seed * 77 + k).randrange(1 << 24) for k in range(ctx.pick(6, 200))})
    cfg = ("INIT Init\nNEXT Next\nINVARIANT RoundTrip\nCHECK_DEADLOCK FALSE\nCONSTANT Seeded = {%s}\n"
           % ", ".join(map(str, seeded)))
    dump = os.path.join(ctx.tmp, "c02.dump")
    ctx.model_check("MC_C02", cfg_text=cfg, dump=dump, what="C02 address round-trip")
    states = tlaval.parse_dump(dump)
    os.unlink(dump)
    V = vectors(ctx, states)
    ev = ctx.replay(V)
    for e in ev:
        ctx.distinct.add(case_of(e))
    ctx.samples.append(ev[0])
    ctx.samples.append(ev[-1])
    # the relational monitor needs all events of one address in the same TLC run: shard by address
    ev.sort(key=lambda e: (e["a"], e["id"]))
    rej = ctx.validate(ev, shards=8)
    ctx.judge(rej)


def replay(ctx, path):
    import json
    with open(path) as f:
        cases = json.load(f)["cases"]
    V = []
    for c in cases:
        e = dict(c["event"])
        e.pop("res", None)
        e.pop("id", None)
        V.append(e)
    ev = ctx.replay(V)
    ctx.judge(ctx.validate(ev, shards=1))
