"""C16 - stream framing is independent of how the byte stream is chunked.

A: StreamSM (TLC): a reference incremental framer that keeps the RAW tail from the last frame start satisfies the framing
   property (Stream.Framing: MustCount <= frames handed over <= MayCount, in order, each once) for EVERY segmentation
   (Arrive(n) for every n, Idle = a read without new bytes) of streams with special bytes at every body position, plus Complete,
   AppendOnly and IdleNoOp.
B: the model's streams (its initial states, dumped) -> the real TcpClient: every single cut, pairs of cuts, 1-byte pieces,
   seeded multi-cuts; NetSource fed with message batches.
Link: the whole receive path as one model (Trace_Link): the real receive loop TcpClient.run of a NetSource on a scripted
   socket object (one piece per recv, receive time-outs in between) -> pipe -> Decode wired together under a virtual
   clock, fed with Beast / raw streams of aircraft histories cut at random; framing, NetSource batching and the resulting
   table are checked step by step against Stream, the NetSource rule and Tracker.Process.
C: every run is a trace (start / step ...) validated by TLC (Trace_Stream) step by step; plus seeded random streams
   (0x1A density ~10 %) x random chunkings.
"""
import itertools
import json
import os

from .. import gen, tlaval, tlc
from . import c01


def model_streams(ctx):
    pos = "{1, 7, 8, 14, 21}" if ctx.quick else "{1, 2, 6, 7, 8, 9, 13, 14, 15, 20, 21}"
    spc = "{26, 51, 0, 59}" if ctx.quick else "{26, 49, 50, 51, 52, 36, 42, 59, 0, 141, 255}"
    base = ("SPECIFICATION Spec\nINVARIANT FramingHolds\nINVARIANT Complete\nPROPERTY AppendOnly\nPROPERTY IdleNoOp\nCHECK_DEADLOCK FALSE\n"
            "CONSTANTS\n Kinds = {\"beast\", \"raw\", \"skysense\"}\n Positions = %s\n Specials = %s\n MaxChunk = %%d\n" % (pos, spc))
    ctx.model_check("StreamSM", cfg_text=base % 200, what="C16 reference framer, all segmentations", timeout=3000)
    dump = os.path.join(ctx.tmp, "streams.dump")
    r = tlc.run("StreamSM", cfg_text=base % 0, workers=4, dump=dump)
    tlc.require_ok(r, "stream dump")
    sts = tlaval.parse_dump(dump)
    os.unlink(dump)
    out = []
    seen = set()
    for s in sts:
        key = json.dumps([s["kind"], s["frs"]], sort_keys=True)
        if key in seen:
            continue
        seen.add(key)
        out.append((s["kind"], s["frs"], len(s["wire"])))
    return out


def random_stream(rng, kind):
    frs = []
    for _ in range(rng.randint(2, 6)):
        def rb(n):
            return [0x1A if rng.random() < 0.12 else rng.randrange(256) for _ in range(n)]
        if kind == "beast":
            ty = rng.choice([0x32, 0x33, 0x33, 0x31, 0x34])
            n = {0x31: 2, 0x32: 7, 0x33: 14, 0x34: 2}[ty]
            body = rb(7) + rb(n)
            u = rng.random()
            if ty in (0x32, 0x33) and u < 0.7:
                body[7] = (rng.choice([0, 4, 5, 11] if ty == 0x32 else [16, 17, 18, 20, 21]) << 3) | (body[7] & 7)
            elif ty in (0x32, 0x33) and u < 0.9:
                # a downlink format that does not go with the frame type (the readers drop these as incomplete)
                body[7] = (rng.choice([0, 4, 5, 11] if ty == 0x33 else [16, 17, 18, 19, 20, 21, 24]) << 3) | (body[7] & 7)
            if rng.random() < 0.4:
                # a constant mined from the library source planted in the record: at the start of the time stamp, of the signal
                # level, of the message, or anywhere
                body = gen.plant(rng, body, 0, len(body), sub=rng.choice(["", "tcpclient", "tcpclient"]), aligned=(0, 6, 7))
            frs.append({"ty": ty, "body": body})
        elif kind == "raw":
            n = rng.choice([7, 14])
            raw = [rng.randrange(256) for _ in range(n)]
            if rng.random() < 0.3:
                raw = gen.plant(rng, raw, 0, n, sub=rng.choice(["", "tcpclient"]))
            t = bytes(raw).hex()
            t = "".join(c.upper() if rng.random() < 0.5 else c for c in t)
            frs.append({"text": [ord(c) for c in t], "sep": rng.choice([[10], [13, 10], [], [32, 10]])})
        else:
            pl = [36 if rng.random() < 0.15 else rng.randrange(256) for _ in range(14)]
            tail = [36 if rng.random() < 0.15 else rng.randrange(256) for _ in range(9)]
            if rng.random() < 0.3:
                both = gen.plant(rng, pl + tail, 0, 23, sub=rng.choice(["", "tcpclient"]))
                pl, tail = both[:14], both[14:]
            frs.append({"pl": pl, "tail": tail})
    return frs


def wire_len(kind, frs):
    from ..calls import _wire
    return len(_wire(kind, frs))


def vectors(ctx, streams):
    rng = ctx.rng
    V = []
    for idx, (kind, frs, n) in enumerate(streams):
        cutsets = [[c] for c in range(1, n)]
        pairs = list(itertools.combinations(range(1, n), 2))
        # every pair of cuts for a rotating subset of the streams (thorough: every 12th stream), a seeded sample elsewhere
        if not ctx.quick and idx % 12 == ctx.seed % 12:
            cutsets += pairs
        else:
            cutsets += rng.sample(pairs, min(len(pairs), ctx.pick(25, 150)))
        cutsets.append(list(range(1, n)))                         # 1-byte pieces
        for _ in range(ctx.pick(4, 30)):
            k = rng.randint(3, max(3, n // 3))
            cutsets.append(sorted(rng.sample(range(1, n), min(k, n - 1))))
        # the piaware variant of the Beast reader ("its rssi twin" in the property's anchors) shares the framing code and is
        # driven with the same streams - the signal-level byte is free like every other payload byte, 0 included
        rssi_ok = kind == "beast"
        for k, cuts in enumerate(cutsets):
            v = {"fn": "stream.run", "kind": kind, "frs": frs, "cuts": list(cuts)}
            if rssi_ok and k % 5 == 0:
                v["reader"] = "rssi"
            V.append(v)
            # the same delivery through the real receive loop TcpClient.run(), with the link going idle (receive time-out) at the
            # piece boundaries: every single cut with one and with two time-outs at the cut, the 1-byte pieces with a time-out
            # after each, a sample of the rest with time-outs drawn at random
            if len(cuts) == 1:
                V.append(dict(v, reader="loop", idle=[0, 1 + k % 2, k % 3 == 0 and 1 or 0]))
            elif len(cuts) == n - 1:
                V.append(dict(v, reader="loop", idle=[1] * (n + 1)))
                V.append(dict(v, reader="loop", idle=[]))
            elif k % 4 == 2:
                V.append(dict(v, reader="loop", idle=[rng.choice([0, 0, 1, 2]) for _ in range(len(cuts) + 2)]))
    for _ in range(ctx.pick(300, 20000)):
        kind = rng.choice(["beast", "beast", "raw", "skysense"])
        frs = random_stream(rng, kind)
        n = wire_len(kind, frs)
        rssi_ok = kind == "beast"
        for j in range(3):
            k = rng.randint(0, min(n - 1, 12))
            v = {"fn": "stream.run", "kind": kind, "frs": frs, "cuts": sorted(rng.sample(range(1, n), k))}
            if rssi_ok and j == 1:
                v["reader"] = "rssi"
            elif j == 2:
                v["reader"] = "loop"
                v["idle"] = [rng.choice([0, 0, 1, 2]) for _ in range(k + 2)]
            V.append(v)
        V.append({"fn": "stream.run", "kind": kind, "frs": frs, "cuts": list(range(1, n))})
    # NetSource: batches of handed-over messages
    for _ in range(ctx.pick(200, 5000)):
        batches = []
        for _ in range(rng.randint(1, 6)):
            b = []
            for _ in range(rng.randint(0, 5)):
                df = rng.choice([17, 18, 20, 21, 17, 20, 4, 5, 11, 0, 16, 19, 24])
                b.append(gen.rand_frame_df(rng, df))
            batches.append(b)
        V.append({"fn": "net.run", "batches": batches, "lower": rng.choice([0, 0, 1, 2])})
        if len(V) % 3 == 0:
            # the RTL-SDR source carries its own copy of the forwarding rule (outside C16's statement: drift only)
            V.append({"fn": "net.run", "batches": batches, "src": "rtl", "lower": rng.choice([0, 1, 2])})
    # long one-sided stretches: NetSource only sends once it holds more than one ADS-B message, so Comm-B replies (or anything
    # else) pile up in its local buffers for as long as no second squitter arrives - thousands of messages over many reads.
    # Whatever the size, everything handed over must come out once, in order (sizes: powers of two and their neighbourhoods)
    sizes = [700, 1500, 2100, 4200] if ctx.quick else [700, 1500, 2100, 4200, 8300, 16500]
    for j, total in enumerate(sizes):
        batches = [[gen.rand_frame_df(rng, 17)] if j % 2 == 0 else []]
        left = total + rng.randint(0, 99)
        while left > 0:
            m = min(left, rng.choice([1, 40, 130, 170, 290]))
            batches.append([gen.rand_frame_df(rng, rng.choice([20, 21, 20, 21, 20, 21, 4, 11, 16])) for _ in range(m)])
            left -= m
        batches.append([gen.rand_frame_df(rng, 17), gen.rand_frame_df(rng, 18)])
        batches.append([gen.rand_frame_df(rng, 20), gen.rand_frame_df(rng, 17), gen.rand_frame_df(rng, 17)])
        V.append({"fn": "net.run", "batches": batches, "lower": j % 3})
    return V


def to_trace(ev):
    lines = []
    for e in ev:
        r = e["res"]
        if e["fn"] == "stream.run":
            lines.append({"ev": "start", "run": e["id"], "kind": e["kind"], "frs": e["frs"]})
            if r["t"] != "steps":
                lines.append({"ev": "step", "run": e["id"], "n": 0, "out": [], "x": 1})   # an exception escaped the reader
                continue
            for s in r["v"]:
                lines.append({"ev": "step", "run": e["id"], "n": s["n"], "out": s["out"], "x": 0})
        else:
            msgs = [m for b in e["batches"] for m in b]
            if r["t"] != "net":
                lines.append({"ev": "net", "run": e["id"], "msgs": msgs, "adsb": [[0]], "commb": [], "src": e.get("src", "net")})
            else:
                lines.append({"ev": "net", "run": e["id"], "msgs": msgs, "adsb": r["adsb"], "commb": r["commb"], "src": e.get("src", "net")})
    return lines


def validate_runs(ctx, ev):
    """shard whole runs over parallel TLC validators; returns [(event, clause)]"""
    import concurrent.futures as cf
    from ..core import NCPU
    shards = [[] for _ in range(NCPU)]
    sizes = [0] * NCPU
    for e in ev:
        k = sizes.index(min(sizes))
        shards[k].append(e)
        sizes[k] += 1 + (len(e["res"].get("v", [])) if e["fn"] == "stream.run" else 1)
    byid = {e["id"]: e for e in ev}

    def one(k):
        part = shards[k]
        if not part:
            return None
        lines = to_trace(part)
        fn = os.path.join(ctx.tmp, "st_%d.ndjson" % k)
        with open(fn, "w") as f:
            for x in lines:
                f.write(json.dumps(x, separators=(",", ":")) + "\n")
        r = tlc.run("Trace_Stream", cfg="Trace_Stream.cfg", workers=1, env={"TRACE_FILE": fn}, timeout=3000)
        os.unlink(fn)
        return r, len(lines), part

    rejected = []
    with cf.ThreadPoolExecutor(max_workers=NCPU) as ex:
        for res in ex.map(one, range(NCPU)):
            if res is None:
                continue
            r, nlines, part = res
            if not r.ok:
                raise tlc.MachineryError("Trace_Stream failed\n%s" % (r.error_text or r.out[-3000:]))
            done = [x for x in r.prints if x[0] == "DONE"]
            if not done or done[-1][1] != nlines or done[-1][2] - 1 != nlines:
                raise tlc.MachineryError("stream trace not fully consumed %r vs %d" % (done, nlines))
            rej = [x for x in r.prints if x[0] == "REJECT"]
            if len(rej) != done[-1][3]:
                raise tlc.MachineryError("REJECT count mismatch")
            bad = {}
            for x in rej:
                bad.setdefault(x[1], x[2])
            for rid, why in bad.items():
                rejected.append((byid[rid], why))
            ctx.states += r.distinct
            ctx.transitions += r.generated
            ctx.validated += nlines - len(rej)
            if len(ctx.tlc_cmds) < 12:
                ctx.tlc_cmds.append("TRACE_FILE=<runs.ndjson> " + r.cmd)
            ctx.tlc_runs.append({"module": "Trace_Stream", "role": "C", "events": nlines, "rejected_runs": len(bad),
                                 "wall_s": round(r.wall, 2)})
    return rejected


def link_vectors(ctx):
    """the whole receive path: message histories of the C17 driver serialised as Beast / raw streams, cut at random, with
    a virtual clock that advances per chunk"""
    from . import c17
    rng = ctx.rng
    V = []
    for k in range(ctx.pick(120, 3000)):
        h = c17.history(ctx, rng, k)
        kind = "beast" if k % 3 else "raw"
        frs = []
        for call in h["script"]:
            msgs = sorted(call["adsb"] + call["commb"], key=lambda m: m["t"])
            for m in msgs:
                if kind == "beast":
                    if rng.random() < 0.2:       # short replies and other record types in between
                        frs.append(rng.choice([{"ty": 0x32, "body": [rng.randrange(256) for _ in range(7)] + gen.rand_frame_df(rng, rng.choice([4, 5, 11]))},
                                               {"ty": 0x31, "body": [rng.randrange(256) for _ in range(9)]},
                                               {"ty": 0x34, "body": [0x1A if rng.random() < 0.3 else rng.randrange(256) for _ in range(9)]}]))
                    frs.append({"ty": 0x33, "body": [0x1A if rng.random() < 0.1 else rng.randrange(256) for _ in range(7)] + list(m["f"])})
                else:
                    t = bytes(m["f"]).hex()
                    if rng.random() < 0.5:
                        t = t.upper()
                    frs.append({"text": [ord(c) for c in t], "sep": rng.choice([[10], [13, 10], []])})
            if len(frs) > 40:
                break
        if not frs:
            continue
        n = wire_len(kind, frs)
        ncut = rng.randint(1, min(n - 1, 25))
        cuts = sorted(rng.sample(range(1, n), ncut))
        t = 2000
        times = []
        for _ in range(ncut + 1):
            t += rng.choice([0, 1, 1, 2, 5, 19, 21, 60, 119, 123, 362])
            times.append(t)
        V.append({"fn": "link.run", "kind": kind, "frs": frs, "cuts": cuts, "times": times, "rx": h["rx"]})
    return V


def validate_link(ctx, ev):
    import concurrent.futures as cf
    from ..core import NCPU
    shards = [ev[k::NCPU] for k in range(NCPU)]
    byid = {e["id"]: e for e in ev}

    def one(k):
        part = shards[k]
        if not part:
            return None
        lines = []
        for e in part:
            lines.append({"ev": "start", "run": e["id"], "id": e["id"] * 1000, "kind": e["kind"], "frs": e["frs"], "rx": e["rx"]})
            for q, st in enumerate(e["res"].get("v", [])):
                lines.append({"ev": "step", "run": e["id"], "id": e["id"] * 1000 + q + 1, "n": st["n"], "now": st["now"], "handed": st["handed"],
                              "sent": st["sent"], "post": st["post"], "exc": st["exc"], "dup": st["dup"]})
        fn = os.path.join(ctx.tmp, "lk_%d.ndjson" % k)
        with open(fn, "w") as f:
            for x in lines:
                f.write(json.dumps(x, separators=(",", ":")) + "\n")
        r = tlc.run("Trace_Link", cfg="Trace_Link.cfg", workers=1, env={"TRACE_FILE": fn}, timeout=3000)
        os.unlink(fn)
        return r, len(lines)

    out = []
    with cf.ThreadPoolExecutor(max_workers=NCPU) as ex:
        for res in ex.map(one, range(NCPU)):
            if res is None:
                continue
            r, nlines = res
            if not r.ok:
                raise tlc.MachineryError("Trace_Link failed\n%s" % (r.error_text or r.out[-3000:]))
            done = [x for x in r.prints if x[0] == "DONE"]
            if not done or done[-1][1] != nlines or done[-1][2] - 1 != nlines:
                raise tlc.MachineryError("link trace not fully consumed %r vs %d" % (done, nlines))
            rej = [x for x in r.prints if x[0] == "REJECT"]
            if len(rej) != done[-1][3]:
                raise tlc.MachineryError("REJECT count mismatch")
            for x in rej:
                out.append((byid[x[1] // 1000], x[1] % 1000, x[2]))
            ctx.states += r.distinct
            ctx.transitions += r.generated
            ctx.validated += nlines - len(rej)
            ctx.tlc_runs.append({"module": "Trace_Link", "role": "C", "events": nlines, "rejected": len(rej), "wall_s": round(r.wall, 2)})
    return out


def case_of(e):
    if e["fn"] == "link.run":
        return ("link", e["id"])
    if e["fn"] == "net.run":
        return ("net", json.dumps(e["batches"]))
    return (e["kind"], json.dumps(e["frs"], sort_keys=True), tuple(e["cuts"]))


def run(ctx):
    ctx.rule = ("streams of the TLC model (special bytes 0x1A,'3',0x00,';',... at every chosen body position, single and doubled, "
                "Beast types 1/4 interleaved; raw with mixed case and CR/LF; Skysense with '$' inside) x every single cut, pairs "
                "of cuts (quick: 25 seeded pairs), 1-byte pieces, seeded multi-cuts; seeded random streams; NetSource batches; "
                "distinct = (stream, cut set)")
    streams = model_streams(ctx)
    ctx.extra["model_streams"] = len(streams)
    ev = ctx.replay(vectors(ctx, streams))
    lev = ctx.replay(link_vectors(ctx))
    ctx.extra["link_runs"] = len(lev)
    ctx.evaluations += sum(len(e["res"].get("v", [])) for e in lev)
    for e, step, why in validate_link(ctx, lev):
        if why.startswith("drift:"):
            ctx.drift += 1
            ctx.drift_kinds = getattr(ctx, "drift_kinds", {})
            ctx.drift_kinds[why] = ctx.drift_kinds.get(why, 0) + 1
            continue
        ctx.violation(why, {"fn": "link.run", "id": e["id"], "step": step, "kind": e["kind"], "frs": e["frs"], "cuts": e["cuts"],
                            "times": e["times"], "rx": e["rx"], "res": {"t": "steps", "v": e["res"].get("v", [])[max(0, step - 1):step]}})
    for e in ev + lev:
        ctx.distinct.add(case_of(e))
    ctx.evaluations += sum(len(e["res"].get("v", [])) for e in ev if e["fn"] == "stream.run")
    smp = dict(ev[len(ev) // 2])
    ctx.samples.append({"kind": smp.get("kind"), "cuts": smp.get("cuts"), "frs": smp.get("frs"), "res": smp["res"]})
    for e, why in validate_runs(ctx, ev):
        if why.startswith("drift:"):
            ctx.drift += 1
            ctx.drift_kinds = getattr(ctx, "drift_kinds", {})
            ctx.drift_kinds[why] = ctx.drift_kinds.get(why, 0) + 1
            continue
        small = {"fn": e["fn"], "id": e["id"], "kind": e.get("kind"), "frs": e.get("frs"), "cuts": e.get("cuts"),
                 "batches": e.get("batches"), "src": e.get("src", "net"), "lower": e.get("lower", 0), "res": e["res"],
                 "reader": e.get("reader", ""), "idle": e.get("idle", [])}
        ctx.violation(why, small)


def replay(ctx, path):
    with open(path) as f:
        cases = json.load(f)["cases"]
    V = []
    for c in cases:
        e = c["event"]
        if e["fn"] == "stream.run":
            v = {"fn": "stream.run", "kind": e["kind"], "frs": e["frs"], "cuts": e["cuts"]}
            if e.get("reader"):
                v["reader"], v["idle"] = e["reader"], e.get("idle", [])
            V.append(v)
        elif e["fn"] == "link.run":
            continue
        else:
            V.append({"fn": "net.run", "batches": e["batches"], "src": e.get("src", "net"), "lower": e.get("lower", 0)})
    L = [{"fn": "link.run", "kind": c["event"]["kind"], "frs": c["event"]["frs"], "cuts": c["event"]["cuts"], "times": c["event"]["times"],
          "rx": c["event"]["rx"]} for c in cases if c["event"]["fn"] == "link.run"]
    if L:
        lev = ctx.replay(L)
        for e, step, why in validate_link(ctx, lev):
            if not why.startswith("drift:"):
                ctx.violation(why, {"fn": "link.run", "id": e["id"], "step": step, "kind": e["kind"], "frs": e["frs"], "cuts": e["cuts"],
                                    "times": e["times"], "rx": e["rx"], "res": e["res"]})
    ev = ctx.replay(V)
    for e, why in validate_runs(ctx, ev):
        if why.startswith("drift:"):
            continue
        ctx.violation(why, {"fn": e["fn"], "id": e["id"], "kind": e.get("kind"), "frs": e.get("frs"), "cuts": e.get("cuts"),
                            "batches": e.get("batches"), "src": e.get("src", "net"), "res": e["res"]})
