-------------------------------- MODULE CommB -------------------------------
(* Comm-B registers (ICAO Doc 9871): MB field layouts, engineering values,   *)
(* the per-register acceptance rules and register inference.                 *)
(* MB bit n (1..56) = frame bit 32+n.  Values are <<num, den>> rationals or  *)
(* NAq ("field not available").                                              *)
EXTENDS Frame, AltId, AeroTable

NAq == <<-2147483647, 1>>
MB(f, n) == Bit(f, 32 + n)
MBF(f, a, b) == Field(f, 32 + a, 32 + b)
\* two's complement: sign bit s, magnitude bits a..b
SV(f, s, a, b) == MBF(f, a, b) - (IF MB(f, s) = 1 THEN Pow2(b - a + 1) ELSE 0)
Gate(f, st, val) == IF MB(f, st) = 1 THEN val ELSE NAq
Wrap360(num, den) == IF num < 0 THEN <<num + 360 * den, den>> ELSE <<num, den>>

(* ---------------- encoder side: registers as (value, width) lists ---------------- *)
PackMB(fields) ==
  LET RECURSIVE Go(_, _)
      Go(k, acc) == IF k > Len(fields) THEN acc
                    ELSE LET nx == acc \o FromInt(fields[k][1], fields[k][2]) IN Go(k + 1, nx)
  IN  Go(1, <<>>)
\* a DF20/21 reply carrying the 56 MB bits
BuildCommB(df, hdr27, mbbits, addr) == BuildAP(BytesOf(FromInt(df, 5) \o FromInt(hdr27, 27) \o mbbits), addr)

\* raw field values v[k] (unsigned), status s[k], sign g[k] in register order
MB40(s, v) == PackMB(<<<<s[1],1>>, <<v[1],12>>, <<s[2],1>>, <<v[2],12>>, <<s[3],1>>, <<v[3],12>>, <<0,8>>,
                       <<s[4],1>>, <<v[4],3>>, <<0,2>>, <<s[5],1>>, <<v[5],2>>>>)
MB50(s, g, v) == PackMB(<<<<s[1],1>>, <<g[1],1>>, <<v[1],9>>, <<s[2],1>>, <<g[2],1>>, <<v[2],10>>, <<s[3],1>>, <<v[3],10>>,
                          <<s[4],1>>, <<g[4],1>>, <<v[4],9>>, <<s[5],1>>, <<v[5],10>>>>)
MB60(s, g, v) == PackMB(<<<<s[1],1>>, <<g[1],1>>, <<v[1],10>>, <<s[2],1>>, <<v[2],10>>, <<s[3],1>>, <<v[3],10>>,
                          <<s[4],1>>, <<g[4],1>>, <<v[4],9>>, <<s[5],1>>, <<g[5],1>>, <<v[5],9>>>>)
MB53(s, g, v) == PackMB(<<<<s[1],1>>, <<g[1],1>>, <<v[1],10>>, <<s[2],1>>, <<v[2],10>>, <<s[3],1>>, <<v[3],9>>,
                          <<s[4],1>>, <<v[4],12>>, <<s[5],1>>, <<g[5],1>>, <<v[5],8>>>>)
\* fom; wind status, speed, direction; temperature sign, value; pressure; turbulence; humidity
MB44(fom, s, g, v) == PackMB(<<<<fom,4>>, <<s[1],1>>, <<v[1],9>>, <<v[2],9>>, <<g[3],1>>, <<v[3],10>>, <<s[4],1>>, <<v[4],11>>,
                               <<s[5],1>>, <<v[5],2>>, <<s[6],1>>, <<v[6],6>>>>)
MB45(s, g, v) == PackMB(<<<<s[1],1>>, <<v[1],2>>, <<s[2],1>>, <<v[2],2>>, <<s[3],1>>, <<v[3],2>>, <<s[4],1>>, <<v[4],2>>,
                          <<s[5],1>>, <<v[5],2>>, <<s[6],1>>, <<g[6],1>>, <<v[6],9>>, <<s[7],1>>, <<v[7],11>>,
                          <<s[8],1>>, <<v[8],12>>, <<0,5>>>>)

(* ---------------- decoder side: absolute bit positions ---------------- *)
\* BDS 1,0 / 1,7 / 2,0 / 3,0
Ovc10(f) == MB(f, 15)
Cap17Codes == <<"BDS05", "BDS06", "BDS07", "BDS08", "BDS09", "BDS0A", "BDS20", "BDS21", "BDS40", "BDS41", "BDS42", "BDS43",
                "BDS44", "BDS45", "BDS48", "BDS50", "BDS51", "BDS52", "BDS53", "BDS54", "BDS55", "BDS56", "BDS5F", "BDS60">>
Cap17(f) == LET idx == SelectSeq([k \in 1..24 |-> k], LAMBDA k : MB(f, k) = 1)
            IN  [i \in 1..Len(idx) |-> Cap17Codes[idx[i]]]

\* BDS 4,0
SelAlt40mcp(f) == Gate(f, 1, <<16 * MBF(f, 2, 13), 1>>)
SelAlt40fms(f) == Gate(f, 14, <<16 * MBF(f, 15, 26), 1>>)
P40baro(f) == Gate(f, 27, <<MBF(f, 28, 39) + 8000, 10>>)
\* BDS 4,4
Wind44spd(f) == Gate(f, 5, <<MBF(f, 6, 14), 1>>)
Wind44dir(f) == Gate(f, 5, <<45 * MBF(f, 15, 23), 64>>)
Temp44a(f) == <<2 * SV(f, 24, 25, 34), 8>>          \* 0.25 C per LSB; reported unconditionally (Temp4xIgnoresStatus)
Temp44b(f) == <<SV(f, 24, 25, 34), 8>>              \* second value 0.125 C per LSB (Temp44TwoValues)
P44(f) == Gate(f, 35, <<MBF(f, 36, 46), 1>>)
Turb44(f) == Gate(f, 47, <<MBF(f, 48, 49), 1>>)
Hum44(f) == Gate(f, 50, <<25 * MBF(f, 51, 56), 16>>)
\* BDS 4,5
Turb45(f) == Gate(f, 1, <<MBF(f, 2, 3), 1>>)
Ws45(f) == Gate(f, 4, <<MBF(f, 5, 6), 1>>)
Mb45(f) == Gate(f, 7, <<MBF(f, 8, 9), 1>>)
Ic45(f) == Gate(f, 10, <<MBF(f, 11, 12), 1>>)
Wv45(f) == Gate(f, 13, <<MBF(f, 14, 15), 1>>)
Temp45(f) == <<SV(f, 17, 18, 26), 4>>
P45(f) == Gate(f, 27, <<MBF(f, 28, 38), 1>>)
Rh45(f) == Gate(f, 39, <<16 * MBF(f, 40, 51), 1>>)
\* BDS 5,0
Roll50(f) == Gate(f, 1, <<45 * SV(f, 2, 3, 11), 256>>)
Trk50(f) == Gate(f, 12, Wrap360(90 * SV(f, 13, 14, 23), 512))
Gs50(f) == Gate(f, 24, <<2 * MBF(f, 25, 34), 1>>)
Rtrk50(f) == Gate(f, 35, <<SV(f, 36, 37, 45), 32>>)
Tas50(f) == Gate(f, 46, <<2 * MBF(f, 47, 56), 1>>)
\* BDS 5,3
Hdg53(f) == Gate(f, 1, Wrap360(90 * SV(f, 2, 3, 12), 512))
Ias53(f) == Gate(f, 13, <<MBF(f, 14, 23), 1>>)
Mach53(f) == Gate(f, 24, <<MBF(f, 25, 33), 125>>)
Tas53(f) == Gate(f, 34, <<MBF(f, 35, 46), 2>>)
\* all-zero / all-one magnitude reads as 0 in the library (named deviation VR53AllOnesIsZero)
Vr53(f) == Gate(f, 47, IF MBF(f, 49, 56) \in {0, 255} THEN <<0, 1>> ELSE <<64 * SV(f, 48, 49, 56), 1>>)
\* BDS 6,0
Hdg60(f) == Gate(f, 1, Wrap360(90 * SV(f, 2, 3, 12), 512))
Ias60(f) == Gate(f, 13, <<MBF(f, 14, 23), 1>>)
Mach60(f) == Gate(f, 24, <<MBF(f, 25, 34), 250>>)
Vr60baro(f) == Gate(f, 35, <<32 * SV(f, 36, 37, 45), 1>>)
Vr60ins(f) == Gate(f, 46, <<32 * SV(f, 47, 48, 56), 1>>)

(* ---------------- acceptance rules ---------------- *)
MBZero(f) == \A k \in 5..11 : f[k] = 0
\* status bit clear but field bits set
WrongStatus(f, sb, a, b) == MB(f, sb) = 0 /\ MBF(f, a, b) # 0
Has(q) == q # NAq
\* |num/den| > lim
AbsGt(q, lim) == Has(q) /\ Abs(q[1]) > lim * q[2]
Gt(q, lim) == Has(q) /\ q[1] > lim * q[2]

Is10(f) == /\ ~MBZero(f) /\ MBF(f, 1, 8) = 16 /\ MBF(f, 10, 14) = 0
           /\ ~(MB(f, 15) = 1 /\ MBF(f, 17, 23) < 5) /\ ~(MB(f, 15) = 0 /\ MBF(f, 17, 23) > 4)
Is17(f) == ~MBZero(f) /\ MBF(f, 25, 40) = 0 /\ MBF(f, 41, 56) = 0 /\ MB(f, 7) = 1
CharOK(c) == (c >= 1 /\ c <= 26) \/ c = 32 \/ (c >= 48 /\ c <= 57)
Is20(f) == /\ ~MBZero(f) /\ MBF(f, 1, 8) = 32
           /\ (\A k \in 6..11 : f[k] = 0) \/ \A k \in 1..8 : CharOK(MBF(f, 3 + 6 * k, 8 + 6 * k))
Is30(f) == ~MBZero(f) /\ MBF(f, 1, 8) = 48 /\ MBF(f, 29, 30) # 3 /\ MBF(f, 16, 22) < 48
Is40(f) == /\ ~MBZero(f)
           /\ ~WrongStatus(f, 1, 2, 13) /\ ~WrongStatus(f, 14, 15, 26) /\ ~WrongStatus(f, 27, 28, 39)
           /\ ~WrongStatus(f, 48, 49, 51) /\ ~WrongStatus(f, 54, 55, 56)
           /\ MBF(f, 40, 47) = 0 /\ MBF(f, 52, 53) = 0
Is44(f) == /\ ~MBZero(f)
           /\ ~WrongStatus(f, 5, 6, 23) /\ ~WrongStatus(f, 35, 36, 46) /\ ~WrongStatus(f, 47, 48, 49) /\ ~WrongStatus(f, 50, 51, 56)
           /\ MBF(f, 1, 4) <= 4
           /\ ~Gt(Wind44spd(f), 250)
           \* temperature plausibility: min(t1, t2) > 60 or max(t1, t2) < -80 rejects (t1 = v/4, t2 = v/8)
           /\ LET v == SV(f, 24, 25, 34) IN ~(Min(2 * v, v) > 480 \/ Max(2 * v, v) < -640)
Is45(f) == /\ ~MBZero(f)
           /\ ~WrongStatus(f, 1, 2, 3) /\ ~WrongStatus(f, 4, 5, 6) /\ ~WrongStatus(f, 7, 8, 9) /\ ~WrongStatus(f, 10, 11, 12)
           /\ ~WrongStatus(f, 13, 14, 15) /\ ~WrongStatus(f, 16, 17, 26) /\ ~WrongStatus(f, 27, 28, 38) /\ ~WrongStatus(f, 39, 40, 51)
           /\ MBF(f, 52, 56) = 0
           /\ LET v == SV(f, 17, 18, 26) IN ~(v > 240 \/ v < -320)
Is50(f) == /\ ~MBZero(f)
           /\ ~WrongStatus(f, 1, 3, 11) /\ ~WrongStatus(f, 12, 13, 23) /\ ~WrongStatus(f, 24, 25, 34)
           /\ ~WrongStatus(f, 35, 36, 45) /\ ~WrongStatus(f, 46, 47, 56)
           /\ ~AbsGt(Roll50(f), 50) /\ ~Gt(Gs50(f), 600) /\ ~Gt(Tas50(f), 600)
           /\ ~(Has(Gs50(f)) /\ Has(Tas50(f)) /\ Abs(Tas50(f)[1] - Gs50(f)[1]) > 200)
Is53(f) == /\ ~MBZero(f)
           /\ ~WrongStatus(f, 1, 3, 12) /\ ~WrongStatus(f, 13, 14, 23) /\ ~WrongStatus(f, 24, 25, 33)
           /\ ~WrongStatus(f, 34, 35, 46) /\ ~WrongStatus(f, 47, 49, 56)
           /\ ~Gt(Ias53(f), 500) /\ ~Gt(Mach53(f), 1) /\ ~Gt(Tas53(f), 500) /\ ~AbsGt(Vr53(f), 8000)

\* everything of BDS 6,0 except the Mach / IAS consistency rule
Is60Format(f) ==
           /\ ~MBZero(f)
           /\ ~WrongStatus(f, 1, 2, 12) /\ ~WrongStatus(f, 13, 14, 23) /\ ~WrongStatus(f, 24, 25, 34)
           /\ ~WrongStatus(f, 35, 36, 45) /\ ~WrongStatus(f, 46, 47, 56)
           /\ ~Gt(Ias60(f), 500) /\ ~Gt(Mach60(f), 1) /\ ~AbsGt(Vr60baro(f), 6000) /\ ~AbsGt(Vr60ins(f), 6000)

\* Mach/IAS rule: |IAS - CAS(Mach, altitude)| <= 20 kt, decided from CasTable (0.01 kt) on its grid,
\* bracketed by monotonicity between grid altitudes (CAS at fixed Mach decreases with altitude).
\* Returns "pass", "fail" or "open" (not decidable from the table within 0.05 kt).
MachIasRule(mi, ias, altft) ==
  IF altft < -1000 \/ altft > 65000 THEN "open"
  ELSE LET lo == (altft + 1000) \div 1000                  \* grid index below (0-based)
           hi == IF (altft + 1000) % 1000 = 0 THEN lo ELSE lo + 1
           cHi == CasTable[mi + 1][lo + 1]                 \* CAS at the lower altitude: larger
           cLo == CasTable[mi + 1][Min(hi, 66) + 1]
           i100 == 100 * ias
       IN  IF i100 - cHi > 2005 \/ cLo - i100 > 2005 THEN "fail"
           ELSE IF i100 - cLo <= 1995 /\ cHi - i100 <= 1995 THEN "pass"
           ELSE "open"

Is60Aero(f) ==   \* "pass" / "fail" / "open" for the aero part of is60
  IF ~(Has(Mach60(f)) /\ Has(Ias60(f)) /\ DF(f) = 20) THEN "pass"
  ELSE LET alt == DecodeAC13(Field(f, 20, 32)) IN
       IF alt = NoAlt THEN "pass"
       ELSE MachIasRule(MBF(f, 25, 34), MBF(f, 14, 23), alt)

(* ---------------- inference ---------------- *)
TCRegister(tc) ==
  IF tc >= 1 /\ tc <= 4 THEN "BDS08" ELSE IF tc >= 5 /\ tc <= 8 THEN "BDS06" ELSE IF tc >= 9 /\ tc <= 18 THEN "BDS05"
  ELSE IF tc = 19 THEN "BDS09" ELSE IF tc >= 20 /\ tc <= 22 THEN "BDS05" ELSE IF tc = 28 THEN "BDS61"
  ELSE IF tc = 29 THEN "BDS62" ELSE IF tc = 31 THEN "BDS65" ELSE "none"

\* candidates in sorted order; is60 is passed in because of its possibly open aero rule
Candidates(f, mrar, is60) ==
  SelectSeq(<<"BDS10", "BDS17", "BDS20", "BDS30", "BDS40", "BDS44", "BDS45", "BDS50", "BDS60">>,
            LAMBDA b : CASE b = "BDS10" -> Is10(f) [] b = "BDS17" -> Is17(f) [] b = "BDS20" -> Is20(f) [] b = "BDS30" -> Is30(f)
                         [] b = "BDS40" -> Is40(f) [] b = "BDS44" -> mrar /\ Is44(f) [] b = "BDS45" -> mrar /\ Is45(f)
                         [] b = "BDS50" -> Is50(f) [] b = "BDS60" -> is60)
Join(seq) == LET RECURSIVE J(_) J(k) == IF k > Len(seq) THEN "" ELSE (IF k > 1 THEN "," ELSE "") \o seq[k] \o J(k + 1) IN J(1)
=============================================================================
