------------------------------ MODULE TV_Uplink -----------------------------
(* Verdicts for pyModeS.decoder.uplink (C18).                                *)
EXTENDS Uplink, Surv, Res

V_uplink_icao(e) == IF IsStr(e.res, HexText(UplinkIcao(e.frame), 6)) THEN "ok" ELSE "uplink_icao_address"
V_uplink_uf(e) == IF IsInt(e.res, UF(e.frame)) THEN "ok" ELSE "uplink_uf"

BdsWant(f) == IF UF(f) \in Selective /\ RR(f) > 15 THEN <<UpperDigit(RR(f) - 16), UpperDigit(RRS(f))>> ELSE <<>>
V_uplink_bds(e) ==
  LET w == BdsWant(e.frame) IN
  IF w = <<>> THEN (IF IsNone(e.res) THEN "ok" ELSE "uplink_bds_none")
  ELSE IF IsStr(e.res, w) THEN "ok" ELSE "uplink_bds_register"

V_uplink_pr(e) ==
  IF UF(e.frame) = 11 THEN (IF IsInt(e.res, PR(e.frame)) THEN "ok" ELSE "uplink_pr_value")
  ELSE IF IsNone(e.res) THEN "ok" ELSE "uplink_pr_none"

\* interrogator code text: "II<n>" / "SI<n>", <<>> when the format carries none
IcWant(f) ==
  IF UF(f) = 11 THEN
       (IF CL(f) = 0 THEN <<73, 73>> \o DecText(IC11(f))
        ELSE IF CL(f) <= 4 THEN <<83, 73>> \o DecText(IC11(f) + 16 * (CL(f) - 1))
        ELSE <<>>)
  ELSE IF UF(f) \in Selective THEN
       (IF DI(f) \in {0, 1, 7} THEN <<73, 73>> \o DecText(IIS(f))
        ELSE IF DI(f) = 3 THEN <<83, 73>> \o DecText(SIS(f))
        ELSE <<>>)
  ELSE <<>>
AbsentOrText(r, w) == IF w = <<>> THEN (IsNone(r) \/ IsStr(r, <<>>)) ELSE IsStr(r, w)
V_uplink_ic(e) == IF AbsentOrText(e.res, IcWant(e.frame)) THEN "ok" ELSE "uplink_ic_code"

LockWant(f) == UF(f) \in Selective /\ ((DI(f) \in {1, 7} /\ LOS(f) = 1) \/ (DI(f) = 3 /\ LSS(f) = 1))
V_uplink_lockout(e) ==
  IF UF(e.frame) \in Selective THEN (IF IsBool(e.res, LockWant(e.frame)) THEN "ok" ELSE "uplink_lockout_bit")
  ELSE IF IsNone(e.res) THEN "ok" ELSE "uplink_lockout_none"

\* uplink_fields(): e.res.v = <<DI, IC, LOS, PR, RR, RRS, BDS>>; "" stands for "absent"
AbsentOrInt(r, has, v) == IF has THEN IsInt(r, v) ELSE (IsNone(r) \/ IsStr(r, <<>>))
V_uplink_fields(e) ==
  LET f == e.frame  r == e.res  sel == UF(f) \in Selective IN
  IF ~IsTup(r, 7) THEN "uplink_fields_shape"
  ELSE IF ~AbsentOrInt(r.v[1], sel, DI(f)) THEN "uplink_fields_DI"
  ELSE IF ~AbsentOrText(r.v[2], IcWant(f)) THEN "uplink_fields_IC"
  ELSE IF ~(IsBool(r.v[3], LockWant(f))) THEN "uplink_fields_LOS"
  ELSE IF ~AbsentOrInt(r.v[4], UF(f) = 11, PR(f)) THEN "uplink_fields_PR"
  ELSE IF ~AbsentOrInt(r.v[5], sel, RR(f)) THEN "uplink_fields_RR"
  ELSE IF ~AbsentOrInt(r.v[6], sel /\ DI(f) \in {3, 7}, RRS(f)) THEN "uplink_fields_RRS"
  ELSE IF ~AbsentOrText(r.v[7], BdsWant(f)) THEN "uplink_fields_BDS"
  ELSE "ok"
=============================================================================
