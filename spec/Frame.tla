-------------------------------- MODULE Frame -------------------------------
(* Mode S downlink frame structure: DF, lengths, address recovery, ME/MB.    *)
EXTENDS CRC24

\* downlink format: first 5 bits; the library clamps 24..31 to 24 (named deviation DFClampedTo24:
\* DF24 "Comm-D ELM" is identified by its first two bits only)
DFraw(f) == f[1] \div 8
DF(f) == Min(DFraw(f), 24)

LongDF(d) == d >= 16
LengthOK(f) == (Len(f) = 14 /\ LongDF(DFraw(f))) \/ (Len(f) = 7 /\ ~LongDF(DFraw(f)))

AAFormats == {11, 17, 18}          \* address announced in bits 9..32
APFormats == {0, 4, 5, 16, 20, 21} \* address overlaid on parity (AP field)

AA(f) == f[2] * 65536 + f[3] * 256 + f[4]

\* 24-bit address carried by the frame, or -1 (none)
IcaoInt(f) ==
  LET d == DF(f)
  IN  IF d \in AAFormats THEN AA(f)
      ELSE IF d \in APFormats THEN Parity(DataOf(f)) ^^ Last24(f)
      ELSE -1

\* what a transponder does: overlay the address on the parity of the data bytes
BuildAP(data, addr) == WithTail(data, Parity(data) ^^ addr)
\* DF11/17/18: plain parity (interrogator code overlay 0)
BuildPI(data, ic) == WithTail(data, Parity(data) ^^ ic)

\* type code of an extended squitter (DF17/18), else -1
TypeCode(f) == IF DF(f) \in {17, 18} /\ Len(f) >= 5 THEN f[5] \div 8 ELSE -1

\* bit n (1..56) of the ME / MB field of a long frame = frame bit 32+n
MEBit(f, n) == Bit(f, 32 + n)
MEField(f, a, b) == Field(f, 32 + a, 32 + b)
MEBytes(f) == SubSeq(f, 5, 11)
=============================================================================
