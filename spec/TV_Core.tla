------------------------------- MODULE TV_Core ------------------------------
(* Verdicts for CRC (C01) and address recovery (C02) events.                 *)
EXTENDS Frame, Res

V_crc(e) ==
  LET f == e.frame
      want == IF e.enc = 1 THEN Parity(DataOf(f)) ELSE ByteRem(f)
  IN  IF ~IsInt(e.res, want) THEN (IF e.enc = 1 THEN "crc_encode_parity" ELSE "crc_remainder")
      ELSE "ok"

\* a sequence of crc() calls made one after the other: every result depends on its own argument only
V_crc_seq(e) ==
  IF e.res.t # "seq" \/ Len(e.res.v) # Len(e.calls) THEN "crc_sequence_raised"
  ELSE LET bad == {k \in 1..Len(e.calls) : V_crc([frame |-> e.calls[k].frame, enc |-> e.calls[k].enc, res |-> e.res.v[k]]) # "ok"}
       IN  IF bad = {} THEN "ok" ELSE "crc_depends_on_earlier_calls"

\* icao(): e.text is the hex text exactly as passed (any letter case)
IcaoWant(text) ==
  LET f == BytesOfText(text)
      a == IcaoInt(f)
  IN  a

\* canon: address -> the result text first seen for it (relational half of C02: one key per
\* transponder whatever the format and the letter case).  Only events flagged rel=1 take part.
V_icao_rel(e, canon) ==
  LET a == IcaoWant(e.text)
  IN  IF a = -1 THEN (IF IsNone(e.res) THEN "ok" ELSE "icao_none_for_other_df")
      ELSE IF e.res.t # "s" THEN "icao_not_string"
      ELSE IF ~(Len(e.res.v) = 6 /\ IsHexText(e.res.v)
                /\ BytesOfText(e.res.v) = BytesOfText(HexText(a, 6))) THEN "icao_wrong_address"
      ELSE IF e.rel = 1 /\ a \in DOMAIN canon /\ canon[a] # e.res.v THEN "icao_two_keys_for_one_address"
      ELSE IF e.res.v # HexText(a, 6) THEN "drift:icao_not_upper_case"
      ELSE IF "want" \in DOMAIN e /\ e.want # HexText(a, 6) THEN "note:recorded_address_column_differs"
      ELSE "ok"

V_icao(e) == V_icao_rel(e, <<>>)

CanonNext(e, canon) ==
  LET a == IcaoWant(e.text)
  IN  IF a # -1 /\ e.rel = 1 /\ e.res.t = "s" /\ a \notin DOMAIN canon
      THEN [x \in DOMAIN canon \cup {a} |-> IF x = a THEN e.res.v ELSE canon[x]]
      ELSE canon

\* allcall.icao(): DF11 only
V_allcall_icao(e) ==
  LET f == BytesOfText(e.text)
  IN  IF DF(f) # 11 THEN (IF IsErr(e.res) THEN "ok" ELSE "allcall_icao_guard")
      ELSE V_icao_rel(e, <<>>)
=============================================================================
