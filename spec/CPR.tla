--------------------------------- MODULE CPR --------------------------------
(* Compact Position Reporting (DO-260B A.1.7) in exact integer arithmetic.   *)
(*                                                                           *)
(* A true position is a pair of binary angles: lat = 360*a/2^24,             *)
(* lon = 360*o/2^24.  kind "air": base 360, sc = 1; kind "surf": base 90,    *)
(* sc = 4.  Parity i in {0,1}, N = 60 - i.  A decoded latitude is the        *)
(* lattice point base*L/(N*2^17), a decoded longitude base*M/(ni*2^17).      *)
(* Every intermediate stays below 2^31.                                      *)
EXTENDS Bits, NLTable, FiniteSets

P16 == 65536
P17 == 131072
P19 == 524288
P20 == 1048576
P24 == 16777216

Sc(kind) == IF kind = "air" THEN 1 ELSE 4
ThrOf(kind, N) == IF kind = "air" THEN (IF N = 60 THEN ThrAir60 ELSE ThrAir59)
                  ELSE (IF N = 60 THEN ThrSurf60 ELSE ThrSurf59)

\* NL of the lattice latitude L (DO-260B NL function evaluated on base*L/(N*2^17))
NLat(kind, N, L) ==
  LET t == ThrOf(kind, N)  x == Abs(L)          \* t[k] strictly decreasing in k: NL = largest k with x < t[k] (1 if none)
      RECURSIVE F(_, _)
      F(lo, hi) == IF lo = hi THEN lo
                   ELSE LET mid == (lo + hi + 1) \div 2
                        IN  IF x < t[mid] THEN F(mid, hi) ELSE F(lo, mid - 1)
  IN  F(1, 59)

(* ------------------------------ encoder -------------------------------- *)
\* returns [yz, xz, L, ni]: the 17-bit fields, the lattice latitude the frame stands for, and its zone count
Encode(kind, a, o, i) ==
  LET N == 60 - i
      sc == Sc(kind)
      x == a * N * sc
      yzf == (PosMod(x, P24) + 64) \div 128          \* 0 .. 2^17 (2^17 = rounds up into the next zone)
      L == FloorDiv(x, P24) * P17 + yzf
      ni == Max(NLat(kind, N, L) - i, 1)
      y == o * ni * sc
      xzf == (PosMod(y, P24) + 64) \div 128
  IN  [yz |-> yzf % P17, xz |-> xzf % P17, L |-> L, ni |-> ni]

\* "within one quantisation step of the true position (a, o)" for a decoded lattice point (L, N, M, ni)
LatWithinBin(kind, a, L, N) == Abs(128 * L - a * N * Sc(kind)) <= 128
\* longitude: the decoded lattice index M against the true longitude rounded to the same lattice, modulo one turn
LonWithinBin(kind, o, M, ni) ==
  LET turn == ni * Sc(kind) * P17
      q == FloorDiv(o * ni * Sc(kind) + 64, 128)
      d == PosMod(M - q, turn)
  IN  Min(d, turn - d) <= 1

(* ------------------------- global decode, airborne ----------------------- *)
NoPos == [none |-> TRUE]

\* e, o: records [yz, xz] of the even and the odd frame; evenNewest: the even frame has the later timestamp
GlobalAir(e, od, evenNewest) ==
  LET j == FloorDiv(59 * e.yz - 60 * od.yz + P16, P17)
      l0 == PosMod(j, 60) * P17 + e.yz
      L0 == IF l0 >= 45 * P17 THEN l0 - 60 * P17 ELSE l0
      l1 == PosMod(j, 59) * P17 + od.yz
      L1 == IF 4 * l1 >= 177 * P17 THEN l1 - 59 * P17 ELSE l1
      nl0 == NLat("air", 60, L0)
      nl1 == NLat("air", 59, L1)
  IN  IF nl0 # nl1 THEN NoPos
      ELSE LET i == IF evenNewest THEN 0 ELSE 1
               N == 60 - i
               L == IF evenNewest THEN L0 ELSE L1
               nl == nl0
               ni == Max(nl - i, 1)
               m == FloorDiv(e.xz * (nl - 1) - od.xz * nl + P16, P17)
               m0 == PosMod(m, ni) * P17 + (IF evenNewest THEN e.xz ELSE od.xz)
               M == IF 2 * m0 > ni * P17 THEN m0 - ni * P17 ELSE m0
           IN  [none |-> FALSE, L |-> L, N |-> N, M |-> M, ni |-> ni]

(* ------------------------- global decode, surface ------------------------ *)
\* receiver location on the dyadic grid: lat = 360*r/2^20, lon = 360*s/2^20
\* latitude candidate (north, or north - 90 deg) nearest the receiver; longitude candidate (of four, 90 deg
\* apart, normalised to [-180,180)) nearest the receiver on the circle
GlobalSurf(e, od, evenNewest, r, s) ==
  LET j == FloorDiv(59 * e.yz - 60 * od.yz + P16, P17)
      L0n == PosMod(j, 60) * P17 + e.yz
      L1n == PosMod(j, 59) * P17 + od.yz
      \* distance to the receiver latitude, in units of 90/(N*2^17*...) : compare 90*L/(N*2^17) with 360*r/2^20
      \* <=> compare L * 2^20 with 4 * r * N * 2^17  <=> compare 8*L with 4*r*N ... (L*8 vs r*N*4)
      South(Ln, N) == Abs(2 * (Ln - N * P17) - r * N) < Abs(2 * Ln - r * N)
      L0 == IF South(L0n, 60) THEN L0n - 60 * P17 ELSE L0n
      L1 == IF South(L1n, 59) THEN L1n - 59 * P17 ELSE L1n
      nl0 == NLat("surf", 60, L0)
      nl1 == NLat("surf", 59, L1)
  IN  IF nl0 # nl1 THEN NoPos
      ELSE LET i == IF evenNewest THEN 0 ELSE 1
               N == 60 - i
               L == IF evenNewest THEN L0 ELSE L1
               nl == nl0
               ni == Max(nl - i, 1)
               m == FloorDiv(e.xz * (nl - 1) - od.xz * nl + P16, P17)
               m0 == PosMod(m, ni) * P17 + (IF evenNewest THEN e.xz ELSE od.xz)   \* lon = 90*m0/(ni*2^17) in [0,90)
               turn == 4 * ni * P17                                                \* 360 degrees in M units
               Norm(M) == LET w == PosMod(M + 2 * ni * P17, turn) IN w - 2 * ni * P17   \* to [-180, 180)
               cand == [q \in 0..3 |-> Norm(m0 + q * ni * P17)]
               \* receiver longitude in M units * 2^3:  360*s/2^20 = 90*M/(ni*2^17)  =>  M = s*ni/2  => 2M vs s*ni
               Dist(M) == LET d == PosMod(2 * M - s * ni, 2 * turn) IN Min(d, 2 * turn - d)
               best == CHOOSE q \in 0..3 : \A p \in 0..3 : Dist(cand[q]) <= Dist(cand[p])
           IN  [none |-> FALSE, L |-> L, N |-> N, M |-> cand[best], ni |-> ni]

(* ------------------- local decode with a reference position --------------- *)
\* reference lat = 360*r/2^20, lon = 360*s/2^20
Local(kind, f, i, r, s) ==
  LET N == 60 - i
      sc == Sc(kind)
      j == FloorDiv(P19 + sc * r * N - 8 * f.yz, P20)
      L == j * P17 + f.yz
      ni0 == NLat(kind, N, L) - i
      ni == IF ni0 <= 0 THEN 1 ELSE ni0
      m == FloorDiv(P19 + sc * s * ni - 8 * f.xz, P20)
      M == m * P17 + f.xz
  IN  [none |-> FALSE, L |-> L, N |-> N, M |-> M, ni |-> ni]
=============================================================================
