--------------------------------- MODULE Res --------------------------------
(* Tagged results recorded from the implementation (see vlib/enc.py):        *)
(*  [t|->"n"] None   [t|->"i",v] int   [t|->"b",v] bool (0/1)                *)
(*  [t|->"q",n,d,x] float projected to the rational n/d (x=1: exactly)       *)
(*  [t|->"s",v] string as character codes   [t|->"tup",v] tuple              *)
(*  [t|->"e"] RuntimeError   [t|->"x",v] any other exception (type name)     *)
EXTENDS Integers, Sequences

IsNone(r) == r.t = "n"
IsErr(r)  == r.t = "e"
IsOtherExc(r) == r.t = "x"
IsInt(r, v) == r.t = "i" /\ r.v = v
IsBool(r, b) == r.t = "b" /\ r.v = (IF b THEN 1 ELSE 0)
IsStr(r, codes) == r.t = "s" /\ r.v = codes
IsLabel(r, w) == r.t = "s" /\ r.w = w
IsTup(r, n) == r.t = "tup" /\ Len(r.v) = n
\* numeric equality with the rational num/den, for int or float results
\* (the recorded value is never multiplied: it may be any 32-bit integer, the model's values are small)
NumEq(r, num, den) ==
  \/ r.t = "i" /\ num % den = 0 /\ r.v = num \div den
  \/ r.t = "q" /\ r.x = 1 /\ (IF r.d = den THEN r.n = num
                              ELSE LET p == num * r.d IN p % den = 0 /\ r.n = p \div den)
\* an int (not a float) equal to v / a float equal to num/den
IsNum(r) == r.t \in {"i", "q"}
\* value or None
IsIntOrNone(r, v) == IF v = -1 THEN IsNone(r) ELSE IsInt(r, v)
=============================================================================
