#!/venv/bin/python
"""Regenerates /verif/MANIFEST.json from the table below (single source of truth for the interface)."""
import json
import os

HERE = os.path.dirname(os.path.dirname(os.path.abspath(__file__)))

# pid -> (technique, level text, level note, design ref)
CHECKS = {
 "C01": ("TLA+ spec of CRC-24 (bit-serial definition + table form); TLC exhaustively checks the algebraic lemmas "
         "(basis equality, linearity, parity closure, min distance >= 6, burst rank) and validates every recorded "
         "crc()/crc_legacy() event against the spec",
         "Spec-level lemmas are exhaustive (they cover all 2^112 frames by linearity); the implementation is bound to "
         "the spec on all unit/single-byte/two-bit frames, error-injected valid frames, self-similar and codeword-prefix frames, "
         "call histories on related frames (crc.seq) and seeded random/recorded frames, each event judged by TLC.",
         "Trusts TLC/TLA+ semantics and the linearity argument in spec/MC_C01.tla; code-side coverage is the driven inputs only.",
         "DESIGN.md section 5 C01"),
 "C02": ("TLA+ spec of frame formats and AP/PI overlays; TLC checks Icao(Build(df,addr,payload))=addr over DF 0..31 x both "
         "lengths and its state dump is replayed (upper/lower/mixed-case hex) into icao/adsb.icao/allcall.icao; events validated "
         "by TLC incl. a relational one-key-per-address monitor",
         "Exhaustive over DF x length x payload pattern x 26+ addresses at spec level; implementation bound on those frames in three "
         "letter cases, recorded traffic (cross-checked against the file's address column), self-similar / codeword-prefix frames and "
         "seeded random frames (one in sixteen carrying a constant mined from the source under test).",
         "Trusts TLC and the spec's reading of Annex 10 AP/PI overlays (cross-checked against 12 000 recorded frames' address column).",
         "DESIGN.md section 5 C02"),
 "C07": ("TLA+ spec of the Annex 10 altitude codes (Gillham encoder built from the reflected-Gray definition, independent "
         "decoder); TLC proves the codecs mutually inverse over all 8192 codes; all codes x carriers replayed into the code and "
         "validated by TLC",
         "Exhaustive over the 13-bit and 12-bit code spaces on both the spec and the implementation side (every code through every "
         "carrier, other bits random); guard cells and recorded traffic in addition.",
         "Trusts TLC and the spec's reading of the Gillham code (checked inside the spec: bijection onto 1280 altitudes, unit-distance).",
         "DESIGN.md section 5 C07"),
 "C08": ("TLA+ spec of identity code and DF4/5/20/21/11 header fields incl. the DF11 PI overlay; TLC checks builder/extractor "
         "round-trips; exhaustive field products replayed into the code and validated by TLC",
         "Exhaustive over 8192 identity patterns and the 16384 FS x DR x IIS x IDS tuples, CA x 162 overlays, every decoder x DF 0..31.",
         "Description strings are checked for shape only (text or None); trusts TLC and the field positions of Annex 10 as transcribed.",
         "DESIGN.md section 5 C08"),
 "C09": ("TLA+ spec of the TC19 and TC5-8 ME layouts (encoder as width lists, decoder as bit positions, integer sqrt, track as an "
         "integer relation, movement table in 1/8 kt); TLC checks layout agreement and table monotonicity; field products replayed "
         "into velocity()/airborne_velocity()/speed_heading()/altitude_diff()/surface_velocity() and validated by TLC",
         "Boundary x boundary and full-range sweeps of every TC19 field for all 8 subtypes, all 512x2 vertical rates, 128x2 differences, "
         "all surface movement x status x track cells; random ME contents and recorded traffic.",
         "Track angle is judged by an integer cross/dot-product relation (tolerance ~0.003 deg); speed truncation follows the library "
         "(named deviation SpeedTruncated); reserved subtypes 0,5,6,7 judged for shape only.",
         "DESIGN.md section 5 C09"),
 "C10": ("TLA+ spec of the Annex 10 six-bit alphabet and identification layout; TLC checks every code at every position; "
         "single-position, uniform and seeded strings replayed into callsign()/category()/cs20() and validated by TLC",
         "Every 6-bit code at every character position on five backgrounds (independence), all TC 1-4 x category x DF17/18 and BDS 2,0 "
         "carriers, seeded strings.",
         "37^8 strings are sampled, not enumerated; independence is established per position.",
         "DESIGN.md section 5 C10"),
 "C13": ("TLA+ spec of TC28/TC29(v1,v2)/TC31 fields and of the quality-indicator look-up domains; every field value x subtype "
         "replayed into the 30 decoders and validated by TLC, incl. a TLC monotonicity check of every uncertainty table as observed "
         "through the API",
         "Exhaustive per field (<= 2^12 values) x 4 subtypes with random other bits; all TC x supplement combinations for the look-ups; "
         "version argument in {None,0,1,2}.",
         "Numeric radii of the uncertainty tables are not pinned (the property does not state them), only totality and monotonicity; "
         "TC29 subtype-0 horizontal mode follows the library's bit position (HorizontalModeAt26).",
         "DESIGN.md section 5 C13"),
 "C03": ("TLA+ spec of DO-260B CPR in exact integer (binary-angle) arithmetic with mpmath-generated NL thresholds; TLC checks "
         "decode(encode) within one bin / None iff NL differs over a position set dense around all 58 NL transitions, poles, equator, "
         "meridians and zone edges; the state dump is replayed as frames into position()/airborne_position() and every result is "
         "validated by TLC on the CPR lattice",
         "Spec level: 40k (quick) to 350k (thorough) position/displacement cases x both time orders, exact arithmetic. Code level: those "
         "cases x argument orders x time orders (int and datetime), same-parity and mixed-family pairs, recorded even/odd pairs.",
         "Positions are binary angles of 360/2^24 deg; floats are projected to the lattice with 1e-4 lattice-unit tolerance; the property's "
         "own within-one-bin predicate (not lattice equality) decides VIOLATION vs MODEL-DRIFT.",
         "DESIGN.md section 5 C03, Appendix A"),
 "C04": ("same CPR spec; TLC checks Local(Encode(p), ref) within one bin and independent of the reference over nine offsets up to the "
         "half-zone edge, both parities, airborne and surface; dump replayed into *_position_with_ref and validated by TLC",
         "C03 position set x parity x {air, surface} x 9 (quick: 4) reference offsets incl. corners and across equator / lon 0 / antimeridian.",
         "Grid references lie on the 360/2^20-degree grid and stay >= 0.01 deg inside the half-zone box (the statement says 'closer than'); off-grid references (zone boundaries k*span/ni, whole degrees) are judged by bracketing between the two grid neighbours where these agree.",
         "DESIGN.md section 5 C04"),
 "C05": ("same CPR spec with the surface (90-degree) encoding and a receiver location; TLC checks GlobalSurf over receivers up to ~40 NM "
         "away incl. the far side of the equator / Greenwich / antimeridian; dump replayed into position()/surface_position() and "
         "validated by TLC",
         "C03 position set (surface encoding) x 6 displacements <= 0.2 NM x 7 (quick: 3) receiver offsets x both time orders.",
         "Documented argument order (even, odd) only; longitude offset of the receiver scaled to stay < 45 deg at high latitude.",
         "DESIGN.md section 5 C05"),
 "C06": ("NL transition table generated from the DO-260B formula (mpmath, 50 digits) into TLA+; TLC checks the table and the NL function "
         "on the whole 0.0005-degree grid; cprNL() replayed on grid / transition neighbourhoods / ulp neighbours / random floats, each "
         "float converted to exact limbs and judged by TLC",
         "All 360 001 grid points at spec level; code driven on the grid (quick: every 8th + all within 0.012 deg of a transition), +-4 ulp "
         "and 10 offsets around each of 58 transitions x 2 signs, specials, 23k-460k random floats.",
         "Within 1e-9 deg of a transition either neighbour is accepted (as the statement allows). py_common lane here; the Cython twin is C15's.",
         "DESIGN.md section 5 C06"),
 "C11": ("TLA+ spec of the Doc 9871 register layouts (BDS 1,0 1,7 4,0 4,4 4,5 5,0 5,3 6,0): encoder as (value,width) lists, decoder as "
         "absolute positions with status gating, two's complement, LSB and wrap; TLC checks layout agreement for every raw value and "
         "tiling; every raw value x status x sign x three fillings replayed into the 40 commb names + bds53 and validated by TLC",
         "Exhaustive per field (<= 2^12 raw values; 18-bit wind field sampled) x status x sign x {zeros, ones, seeded} other bits, DF20/21; "
         "recorded Comm-B traffic through every decoder; object identity of commb.* and bdsXX.*.",
         "Rational projection of floats with per-field denominators (exactness 1e-6); named deviations Temp4xIgnoresStatus, "
         "Temp44TwoValues, VR53AllOnesIsZero follow the library.",
         "DESIGN.md section 5 C11, Appendix D"),
 "C12": ("TLA+ spec of every register acceptance rule (status, reserved-bit, envelope thresholds as integer inequalities), of infer() "
         "and of is50or60() at sea level, with an mpmath-generated CAS table for the Mach/IAS rule; TLC checks completeness/soundness "
         "lemmas; boundary-directed payloads replayed into infer/isXX/is50or60 and every result recomputed by TLC",
         "In-envelope encodings of five registers, every single-bit flip of them, every threshold +-1 LSB, ELS register cells, DF17/18 x TC, "
         "Mach/IAS rule on the CAS grid, both-5,0-and-6,0 payloads with decisive references, 11k recorded frames, random dense/sparse payloads.",
         "The Mach/IAS rule is judged only where the CAS table decides it within 0.05 kt (else either verdict accepted); is50or60 is judged "
         "only with alt_ref = 0 and references that make the nearest interpretation decidable without trigonometry.",
         "DESIGN.md section 5 C12"),
 "C14": ("the documented domain of every decoder is part of its TLA+ verdict operator (Guard/T29/SurvGuard ... in spec/TV_*.tla); every "
         "DF x TC x subtype x length cell with five payload fillings is replayed through every exported callable and tell(), and TLC "
         "judges each outcome (value of the right shape inside the domain, RuntimeError outside, no other exception); the repository's "
         "own 36 tests are recorded call by call (pytest plugin in /verif) and validated the same way",
         "All 32 DF cells and, for DF17/18, all 32 x 8 TC x subtype cells x 5 (quick: 2) fillings x ~95 callables, plus seeded random frames.",
         "Well-formed = length consistent with DF; 28-hexdigit functions are not judged on 14-digit input; functions documented without a "
         "DF/TC domain are judged for totality only; TC29 reserved subtypes 2-3 may be refused or decoded.",
         "DESIGN.md section 5 C14"),
 "C16": ("TLA+ spec of the Beast/raw/Skysense wire formats with frame positions and the two framing bounds; TLC model-checks a "
         "reference incremental framer over EVERY segmentation of streams with special bytes at every position (state machine "
         "StreamSM with actions Arrive(n) and Idle: invariants FramingHolds, Complete, action properties AppendOnly, IdleNoOp); the same streams are cut every way into the real "
         "TcpClient/NetSource and each run is validated step by step by TLC (Trace_Stream); the whole receive path (framing -> "
         "NetSource -> Decode, wired together under a virtual clock) is validated against the composed model Trace_Link",
         "Spec level: all segmentations (every chunk size at every position) of 180 (quick) to 1300+ streams. Code level: every single "
         "cut, pairs of cuts (quick: seeded subset), 1-byte pieces, seeded multi-cuts; seeded random streams with 12 % 0x1A density; "
         "NetSource batches incl. long one-sided stretches; the same deliveries through the real TcpClient.run() loop with receive time-outs at the cuts.",
         "No real sockets: chunks are appended to TcpClient.buffer and read_*_buffer() is called directly, or TcpClient.run() is driven on a scripted socket object (one piece or one zmq.error.Again per recv); timestamps ignored.",
         "DESIGN.md section 5 C16, Appendix B"),
 "C18": ("TLA+ spec of the uplink formats: AP formed by polynomial multiplication (top 24 bits of A*G) XOR parity, address recovered by "
         "polynomial division (independent formulations, TLC checks they invert each other), field layouts of UF4/5/20/21 and UF11; "
         "the full field product replayed into pyModeS.decoder.uplink and validated by TLC",
         "UF(32) x RR(32) x DI(8) x IIS/SIS x LOS/LSS (quick: every 3rd IIS/SIS value) and UF11 x PR x CL x IC exhaustively; 600+ addresses "
         "x both lengths x payload patterns; random frames; uplink_fields compared with the single-field semantics ('' = absent).",
         "Trusts the field positions of Annex 10 as transcribed in spec/Uplink.tla; uplink_fields' '' / False tokens are read as 'absent'.",
         "DESIGN.md section 5 C18"),
 "C17": ("TLA+ state machine of aircraft motion, squitter/reply emission and batch processing (TrackerSM over the pure function "
         "Tracker.Process with exact CPR arithmetic): TLC explores every interleaving/spacing to depth 6-7 from six start places and "
         "checks Fresh, Gate, Accurate; TLC-simulated behaviours of that machine and seeded random histories are run through the real "
         "Decode.process_raw and validated call by call by TLC (Trace_Tracker) against the model (whole table incl. callsign, "
         "velocity, altitude, Comm-B values) and against the property's own predicates with ground truth; the decoder process loop "
         "Decode.run is specified separately (DecodeLoop: TLC safety + liveness over all send/poll interleavings, one schedule per "
         "transition of its state graph stepped through the real loop, every step validated by TLC; deviations there are MODEL-DRIFT) "
         "and so is the viewer (ScreenSM); two unbounded statements are TLAPS proofs re-run by the check: the staleness bound for all time "
         "stamps (TrackerProofs, quick) and the loop's publish-after-processing invariant for any number of batches (DecodeLoopProofs, thorough)",
         "Spec: ~0.5M states / 9M transitions per start place (quick: 3 places at depth 6; thorough: 6 at depth 7). Code: 600 (thorough "
         "12 000) histories of 8-30 (80) steps, 2-4 aircraft, every type code, Comm-B incl. unknown addresses, hex case upper/lower/"
         "mixed, chunks spanning 0.5-250 s, long position-less stretches. Loop: 1.7 k (thorough 6 k) schedules, 29 k (146 k) steps.",
         "Trajectories within +-80 deg, surface <= 70 kt, a mode held > 10 s, landing within ~30 NM of the receiver, timestamps multiples "
         "of 0.5 s; ground truth comes from the harness's integer CPR encoder, which TLC re-checks against the spec encoder on every squitter.",
         "DESIGN.md section 5 C17"),
 "C19": ("TLA+ spec of the pulse-position modulator and of the buffer processor (noise floor over 200-sample windows, 10 dB gate, preamble "
         "template, pair slicing, DF/length/CRC admission) over integer samples; TLC checks Demod(Modulate(frames)) = frames over frame "
         "lists x offsets x gaps x amplitudes x noise settings; seeded random buffers through the real _process_buffer() are judged by "
         "TLC (sent frames recovered, no bad-parity DF17, equality with the spec processor on the same samples)",
         "Spec: 1.8k (quick) / 30k+ (thorough) modulated buffers. Code: 500 (thorough 12 000) random buffers of 0-3 frames incl. bad-parity "
         "decoys, amplitudes 0.3-1.4, noise peaks from 0 to -10 dB of the weakest pulse.",
         "'10 dB above the noise floor' read as: every noise sample <= amp/3.162; uniform integer noise (x1000), not Gaussian/Rayleigh; "
         "buffers contain a fully quiet 100-us window; no SDR hardware (object.__new__(RtlReader)). The finding C19-false-preamble-in-strong-noise (noise reaching 0.2 "
         "absolute) is repaired in /repo 395dcb0.",
         "DESIGN.md section 5 C19"),
 "C20": ("relational monitoring: the spec states the relations of the property as TLA+ predicates over integer-projected observations "
         "(ISA within 0.1 % of an mpmath-generated ISO 2533 table, continuity at 11 km, conversion pairs mutually inverse, strict "
         "monotonicity, TAS/CAS >= EAS, equality at sea level, symmetric distance agreeing with an integer haversine form, bearing "
         "range, scalar = array); pyModeS.aero is evaluated on the grid and TLC judges every observation",
         "42 altitudes x 17 speeds / 13 Mach numbers x 8 conversions (quick: every 4th altitude), scalar and numpy calls, 1500+ whole-degree "
         "coordinate pairs incl. poles, antimeridian, identical and antipodal points.",
         "The technique contributes least here: oracles are tables / an integer formula with stated tolerances (0.1 %, 1e-6, 3e-4); numeric "
         "drift below them is invisible; TAS/CAS >= EAS is checked at and above sea level only ('at altitude').",
         "DESIGN.md section 5 C20"),
 "C15": ("two-implementation conformance against one TLA+ spec: every shared function is driven over its domain in lane P (py_common), "
         "lane T (the working-tree c_common.pyx executed through a transliterator with C coercion semantics) and lane B (the Cython-"
         "generated C compiled with gcc, per function only where a freshness gate shows it matches the .pyx); TLC validates every "
         "lane's events with the same verdict operators (sentinels stand for None only in the C lanes); the library-level vector sets "
         "of C07-C10, C12, C13 are replayed under the .pyx lane",
         "Exhaustive 13-bit altitude / identity codes and 11-bit Gray codes, DF/TC cells, 1.5k-60k random frames in any letter case, the C06 "
         "latitude set, rational floor arguments, address-block boundaries; T and B compared vector by vector where B is fresh.",
         "Cython is not installed: nothing here shows that a future Cython build of the .pyx behaves like lane T; lane B depends on the "
         "(git-ignored) generated c_common.c being present; hex2int/bin2int driven within a C long.",
         "DESIGN.md section 3 (lanes), section 5 C15"),
}

PENDING = {}


def main():
    props = [json.loads(l) for l in open(os.path.join(HERE, "properties.jsonl"))]
    checks = []
    na = []
    for p in props:
        pid = p["id"]
        if pid in CHECKS:
            tech, text, note, ref = CHECKS[pid]
            checks.append({
                "property_id": pid,
                "quick_cmd": "/venv/bin/python /verif/check %s --tier quick" % pid,
                "thorough_cmd": "/venv/bin/python /verif/check %s --tier thorough" % pid,
                "evidence_file": "/verif/evidence/%s.json" % pid,
                "replay_cmd_template": "/venv/bin/python /verif/check %s --replay {path}" % pid,
                "engine": "tlc-conformance",
                "level_claimed": {"category": "model_checking", "text": text, "design_ref": ref},
                "level_note": note,
                "technique": tech,
            })
        else:
            na.append({"property_id": pid, "reason": PENDING.get(pid, "check not built yet in this round (planned: TLA+ spec + TLC trace validation, see DESIGN.md section 5); not claimed until its command exists")})
    m = {
        "version": 1,
        "setup_cmd": "/venv/bin/python /verif/tools/setup.py",
        "hooks": {
            "guard": "PYMODES_VERIF",
            "enable": "no source hooks are needed: every observation point is public API / public attributes; checks import /repo/src from the working tree and set PYMODES_VERIF=1 (reserved, unused by the library)",
            "baseline_off_cmd": "cd /repo && /venv/bin/python -m pytest -ra -q -p no:cacheprovider --timeout=900 --continue-on-collection-errors",
            "source_commits": [],
            "add_only": True,
        },
        "engines": [{
            "name": "tlc-conformance",
            "path": "/verif/check",
            "serves_properties": [c["property_id"] for c in checks],
            "kind_free_text": "explicit TLA+ specification (spec/*.tla) checked with TLC (role A), TLC-/harness-generated vectors replayed into the real code (role B), recorded events validated by TLC against the spec (role C)",
        }],
        "checks": checks,
        "not_applicable": na,
        "notes": "See DESIGN.md. exit 2 = machinery failure (never a verdict). VERIF_SEED / VERIF_TIER honoured.",
    }
    with open(os.path.join(HERE, "MANIFEST.json"), "w") as f:
        json.dump(m, f, indent=1)
    print("MANIFEST.json: %d checks, %d not_applicable" % (len(checks), len(na)))


if __name__ == "__main__":
    main()
