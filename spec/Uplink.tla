-------------------------------- MODULE Uplink ------------------------------
(* Mode S interrogations (uplink formats), Annex 10 vol IV 3.1.2.            *)
(*  UF4/5/20/21: UF 1-5, PC 6-8, RR 9-13, DI 14-16, SD 17-32, [MA 33-88], AP  *)
(*      SD by DI: 0: IIS 17-20 | 1: IIS 17-20, LOS 26 | 7: IIS 17-20, RRS     *)
(*      21-24, LOS 26 | 3: SIS 17-22, LSS 23, RRS 24-27                      *)
(*  UF11: UF 1-5, PR 6-9, IC 10-13, CL 14-16, AP                              *)
(* Uplink AP = parity(data) XOR top24(A(x) * G(x)).                           *)
EXTENDS Frame

UFraw(f) == f[1] \div 8
UF(f) == Min(UFraw(f), 24)
Selective == {4, 5, 20, 21}

\* exponents of G(x) = x^24 + x^23 + ... + x^12 + x^10 + x^3 + 1
GExps == (12..24) \cup {10, 3, 0}
\* high 24 bits of the 48-bit product A(x) * G(x): XOR of A shifted right by 24 - p for every term x^p of G
MulTop24(a) ==
  LET RECURSIVE Go(_, _)
      Go(p, acc) == IF p > 24 THEN acc
                    ELSE LET nx == IF p \in GExps THEN acc ^^ (a \div Pow2(24 - p)) ELSE acc IN Go(p + 1, nx)
  IN  Go(0, 0)

\* what an interrogator transmits: data bytes followed by AP
BuildUplink(data, addr) == WithTail(data, Parity(data) ^^ MulTop24(addr))

\* address recovery: quotient of (M * x^24) by G, M = AP XOR parity(data)  (long division, 48 steps)
QuotientBy(m) ==
  LET RECURSIVE Go(_, _, _)
      Go(k, r, q) ==      \* k: steps done; bits 1..24 of the dividend are those of m, bits 25..48 are zero
        IF k = 48 THEN q
        ELSE LET b == IF k < 24 THEN (m \div Pow2(23 - k)) % 2 ELSE 0
                 s == 2 * r + b
                 hit == s >= M24
                 nr == IF hit THEN s ^^ GenFull ELSE s
                 nq == (2 * q + (IF hit THEN 1 ELSE 0)) % M24
             IN  Go(k + 1, nr, nq)
  IN  Go(0, 0, 0)
UplinkIcao(f) == QuotientBy(Last24(f) ^^ Parity(DataOf(f)))

\* fields
PC(f) == Field(f, 6, 8)
RR(f) == Field(f, 9, 13)
DI(f) == Field(f, 14, 16)
IIS(f) == Field(f, 17, 20)
SIS(f) == Field(f, 17, 22)
LSS(f) == Bit(f, 23)
LOS(f) == Bit(f, 26)
RRS(f) == IF DI(f) = 7 THEN Field(f, 21, 24) ELSE IF DI(f) = 3 THEN Field(f, 24, 27) ELSE 0
PR(f) == Field(f, 6, 9)
IC11(f) == Field(f, 10, 13)
CL(f) == Field(f, 14, 16)

\* builders used by the model (bits as in the tables above)
BuildSelective(uf, pc, rr, di, sd, long, addr) ==
  LET hdr == FromInt(uf, 5) \o FromInt(pc, 3) \o FromInt(rr, 5) \o FromInt(di, 3) \o FromInt(sd, 16)
      ma == IF long THEN [k \in 1..56 |-> (k * 5 + rr) % 2] ELSE <<>>
  IN  BuildUplink(BytesOf(hdr \o ma), addr)
BuildUF11(pr, ic, cl, addr) ==
  BuildUplink(BytesOf(FromInt(11, 5) \o FromInt(pr, 4) \o FromInt(ic, 4) \o FromInt(cl, 3) \o FromInt(0, 16)), addr)
=============================================================================
