"""C13 - ADS-B status, intent and quality indicators (TC 19/28/29/31).

A: MC_ADSB (layout agreement of the shared ME machinery) - the TC28/29/31 fields are single extractions whose
   positions are stated once in TV_ADSB; the round-trip here is through the harness's independent bit packer.
B/C: every value of every field x subtype x random other bits -> the 15 TC29 decoders, emergency_state, is_emergency,
   version, nic_*, nac_*, nuc_*, sil (version in {None,0,1,2}) -> TLC; look-up totality over TC x supplements; the
   tables observed through the API are checked by TLC for 'higher category never looser' (V_monotone).
"""
from .. import gen
from . import c01

T29_FNS = ["selected_altitude", "target_altitude", "vertical_mode", "horizontal_mode", "selected_heading",
           "target_angle", "baro_pressure_setting", "autopilot", "vnav_mode", "altitude_hold_mode", "approach_mode",
           "lnav_mode", "tcas_operational", "tcas_ra", "emergency_status"]
# field (ME msb, lsb) -> functions that read it
T29_FIELDS = [
    ((9, 20), ["selected_altitude"]), ((8, 10), ["target_altitude"]), ((16, 25), ["target_altitude"]),
    ((14, 15), ["vertical_mode"]), ((26, 27), ["horizontal_mode", "target_angle"]), ((30, 39), ["selected_heading"]),
    ((28, 37), ["target_angle"]), ((21, 29), ["baro_pressure_setting"]),
    ((47, 54), ["autopilot", "vnav_mode", "altitude_hold_mode", "approach_mode", "lnav_mode", "tcas_operational", "tcas_ra"]),
    ((52, 56), ["tcas_operational", "tcas_ra", "emergency_status"]), ((40, 46), ["nac_p", "sil"]), ((8, 8), ["sil"]),
]


def es(rng, tc, df=None):
    f = gen.rand_frame_df(rng, df or rng.choice([17, 17, 18]))
    return gen.set_bits(f, 33, 37, tc)


def vectors(ctx):
    rng = ctx.rng
    V = []

    def add(fn, f, case, **kw):
        v = {"fn": "adsb." + fn, "frame": gen.selfsim_tail(rng, f, 0.05), "case": case}
        v.update(kw)
        if fn == "sil":
            v.setdefault("version", rng.choice([-1, 0, 1, 2]))
        V.append(v)

    # TC28
    for st in range(8):
        for state in range(8):
            for _ in range(ctx.pick(4, 40)):
                f = es(rng, 28)
                f = gen.set_bits(f, 38, 40, st)
                f = gen.set_bits(f, 41, 43, state)
                add("emergency_state", f, ["28", st, state])
                add("is_emergency", f, ["28", st, state])
    # TC29: every value of every field, all four subtypes
    for (msb, lsb), fns in T29_FIELDS:
        w = lsb - msb + 1
        for st in range(4):
            for val in [x for x in range(1 << w) for _ in range(ctx.pick(1, 6))]:
                f = es(rng, 29)
                f = gen.set_bits(f, 38, 39, st)
                f = gen.set_bits(f, 32 + msb, 32 + lsb, val)
                if msb <= 7 <= lsb:
                    f = gen.set_bits(f, 38, 39, st)
                for fn in fns:
                    add(fn, f, ["29", st, msb, val])
                add(rng.choice(T29_FNS), f, ["29x", st, msb, val])
            # the same field values against an all-ones and an all-zeros background (every other ME bit set / clear):
            # "unaffected by the bits outside the field" at the two extremes a random background practically never reaches
            for bg in (0, 1):
                for val in range(1 << w):
                    f = es(rng, 29)
                    f = gen.set_bits(f, 38, 88, ((1 << 51) - 1) * bg)
                    f = gen.set_bits(f, 38, 39, st)
                    f = gen.set_bits(f, 32 + msb, 32 + lsb, val)
                    if msb <= 7 <= lsb:
                        f = gen.set_bits(f, 38, 39, st)
                    for fn in fns:
                        add(fn, f, ["29bg", bg, st, msb, val])
    for _ in range(ctx.pick(1500, 100000)):
        f = es(rng, 29)
        for fn in rng.sample(T29_FNS, 3) + ["nac_p", "sil"]:
            add(fn, f, ["29r", gen.get_bits(f, 38, 88) % 1000003])
    # TC31
    for val in range(256):
        for _ in range(ctx.pick(2, 10)):
            f = es(rng, 31)
            f = gen.set_bits(f, 32 + 41, 32 + 48, val)
            for fn in ("version", "nic_s", "nic_a_c", "nac_p"):
                add(fn, f, ["31", fn, val])
            f2 = gen.set_bits(es(rng, 31), 32 + 49, 32 + 56, val)
            add("sil", f2, ["31s", val], version=rng.choice([-1, 0, 1, 2]))
            add("sil", f2, ["31s2", val], version=2)
            f3 = gen.set_bits(es(rng, 31), 32 + 17, 32 + 24, val)
            add("nic_a_c", f3, ["31c", val])
    # TC19 NACv / NUCv, TC 9-18 NICb
    for cat in range(8):
        for _ in range(ctx.pick(6, 60)):
            f = gen.set_bits(es(rng, 19), 32 + 11, 32 + 13, cat)
            add("nac_v", f, ["19", cat])
            add("nuc_v", f, ["19", cat])
    for tc in range(9, 19):
        for b in (0, 1):
            for _ in range(ctx.pick(3, 30)):
                f = gen.set_bits(es(rng, tc), 40, 40, b)
                add("nic_b", f, ["nicb", tc, b])
    # look-ups: every TC x supplement combination
    for tc in range(32):
        for _ in range(ctx.pick(2, 10)):
            f = es(rng, tc)
            add("nuc_p", f, ["lk", tc])
            for s in (0, 1):
                add("nic_v1", f, ["lk", tc, s], nics=s)
                for b in (0, 1):
                    add("nic_v2", f, ["lk", tc, s, b], nica=s, nicbc=b)
    # guards: every function x every TC, and a few non-ES formats
    allf = T29_FNS + ["emergency_state", "is_emergency", "version", "nic_s", "nic_a_c", "nic_b", "nac_p", "nac_v",
                      "nuc_v", "sil"]
    for tc in range(32):
        for _ in range(ctx.pick(2, 12)):
            f = es(rng, tc)
            for fn in allf:
                add(fn, f, ["g", tc])
    for df in (0, 4, 5, 11, 16, 20, 21, 24, 31):
        f = gen.rand_frame_df(rng, df)
        for fn in allf + ["nuc_p"]:
            add(fn, f, ["gdf", df])
    for ts, msg, ic in gen.sample_frames("adsb")[:ctx.pick(600, 100000)]:
        f = list(bytes.fromhex(msg))
        tc = f[4] >> 3
        if tc in (28, 29, 31):
            for fn in (["emergency_state"] if tc == 28 else T29_FNS[:4] if tc == 29 else ["version", "nac_p", "sil"]):
                add(fn, f, ["smp", len(V)])
    return V


def monotone_events(ev):
    """build the 'table observed through the API' pseudo-events from the look-up results of this run"""
    tabs = {}

    def num(r):
        if r["t"] == "i":
            return r["v"] * 1000, 1
        if r["t"] == "q" and r.get("x") == 1:
            return r["n"] * 1000 // r["d"], 1
        return 0, 0

    cols = {"adsb.nuc_p": ("HPL", "RCu"), "adsb.nic_v1": ("Rc",), "adsb.nic_v2": ("Rc",), "adsb.nac_p": ("EPU",),
            "adsb.nac_v": ("HFOMr", "VFOMr"), "adsb.nuc_v": ("HVE", "VVE"), "adsb.sil": ("PE_RCu", "PE_VPL")}
    for e in ev:
        if e["fn"] not in cols or e["res"]["t"] != "tup":
            continue
        r = e["res"]["v"]
        if e["fn"] == "adsb.sil":
            # category is the SIL field itself (TC29: ME 45-46, TC31: ME 51-52)
            tc = e["frame"][4] >> 3
            cat = gen.get_bits(e["frame"], 32 + 45, 32 + 46) if tc == 29 else gen.get_bits(e["frame"], 32 + 51, 32 + 52)
            vals = r[0:2]
        else:
            if r[0]["t"] != "i":
                continue
            cat = r[0]["v"]
            vals = r[1:1 + len(cols[e["fn"]])]
        for name, rv in zip(cols[e["fn"]], vals):
            n, has = num(rv)
            tabs.setdefault((e["fn"], name), {})[(cat, n, has)] = 1
    out = []
    for (fn, name), rows in sorted(tabs.items()):
        rs = [{"c": c, "n": n, "has": h} for (c, n, h) in sorted(rows)]
        # PE (probability) tables are in units of 1e-10 -> keep within 31 bits: rows were scaled by 1000 from den 1e7
        out.append({"fn": "monotone", "table": fn + "." + name, "rows": rs, "case": ["mono", fn, name]})
    return out


def case_of(e):
    return (e["fn"], tuple(e["case"]), e.get("version"))


def run(ctx):
    ctx.defer_guards = True
    ctx.rule = ("every value of every TC28/29/31 field x subtype with random other bits, TC19 NACv/NUCv, NICb, all TC x "
                "supplement look-ups, every function x every TC (guards), recorded traffic; tables observed through the API "
                "checked for monotonicity. distinct = (fn, field tuple, version)")
    ctx.model_check("MC_ADSB", cfg="MC_ADSB.cfg", what="ADS-B ME layouts")
    ev = ctx.replay(vectors(ctx))
    for e in ev:
        ctx.distinct.add(case_of(e))
    mono = monotone_events(ev)
    for k, m in enumerate(mono):
        m["id"] = 10 ** 7 + k
        m["lane"] = "P"
        m["res"] = {"t": "n"}
    ctx.extra["tables_checked_for_monotonicity"] = [m["table"] + ":%d rows" % len(m["rows"]) for m in mono]
    ctx.samples += [ev[0], ev[len(ev) // 2]] + mono[:1]
    ctx.judge(ctx.validate(ev + mono))


replay = c01.replay
