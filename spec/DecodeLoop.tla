----------------------------- MODULE DecodeLoop -----------------------------
(* Decode.run (streamer/decode.py, lines 292-318): the decoder process of modeslive, between the raw pipe fed by the     *)
(* source process (NetSource / RtlSdrSource handle_messages -> raw_pipe_in.send) and the aircraft pipe read by the       *)
(* screen process.  One action per step of the loop body, the source's send as an independently enabled action, so TLC   *)
(* explores every interleaving of "a batch arrives" with the loop's poll / recv / process / publish steps.               *)
(*                                                                                                                       *)
(*      while True:                                                                                                      *)
(*          try:                                                                                                         *)
(*              while raw_pipe_out.poll():            Poll                                                               *)
(*                  data = raw_pipe_out.recv()        Recv                                                               *)
(*                  local_buffer.append(data)                                                                            *)
(*              for data in local_buffer:                                                                                *)
(*                  self.process_raw(...)             ProcOk / ProcRaise                                                 *)
(*              local_buffer = []                     ProcDone                                                           *)
(*              ac_pipe_in.send(self.get_aircraft())  Publish                                                            *)
(*          except Exception: exception_queue.put()   (second half of ProcRaise: local_buffer is NOT cleared)            *)
(*                                                                                                                       *)
(* Batches are numbered 1..NB in the order the source sends them.  Poison is the set of batches on which process_raw     *)
(* raises (C17 states that there is none for well-formed DF17/18/20/21 input; with malformed input the loop keeps its    *)
(* whole batch list and re-processes it from the start - modelled as the code does it, the hazard is stated below).      *)
EXTENDS Naturals, Sequences, FiniteSets

CONSTANTS NB, Poison, MaxExc

VARIABLES sent,     \* number of batches the source has put on the raw pipe
          pipe,     \* batches in the raw pipe, oldest first
          lbuf,     \* Decode.run's local_buffer
          pc,       \* "poll" | "recv" | "proc" | "publish"
          idx,      \* position of the for-loop in lbuf (1-based) while pc = "proc"
          calls,    \* history: batch ids handed to process_raw, in call order
          pubs,     \* Len(calls) at the latest ac_pipe_in.send (0 before the first; a full history would be unbounded)
          excs      \* entries put on exception_queue
vars == <<sent, pipe, lbuf, pc, idx, calls, pubs, excs>>

Init == /\ sent = 0 /\ pipe = <<>> /\ lbuf = <<>> /\ pc = "poll" /\ idx = 0
        /\ calls = <<>> /\ pubs = 0 /\ excs = 0

(* source process *)
Send == /\ sent < NB
        /\ sent' = sent + 1
        /\ pipe' = Append(pipe, sent + 1)
        /\ UNCHANGED <<lbuf, pc, idx, calls, pubs, excs>>

(* decoder process *)
Poll == /\ pc = "poll"
        /\ IF pipe # <<>> THEN pc' = "recv" /\ idx' = idx
                          ELSE pc' = "proc" /\ idx' = 1
        /\ UNCHANGED <<sent, pipe, lbuf, calls, pubs, excs>>

Recv == /\ pc = "recv"
        /\ lbuf' = Append(lbuf, Head(pipe))
        /\ pipe' = Tail(pipe)
        /\ pc' = "poll"
        /\ UNCHANGED <<sent, idx, calls, pubs, excs>>

ProcOk == /\ pc = "proc" /\ idx <= Len(lbuf) /\ lbuf[idx] \notin Poison
          /\ calls' = Append(calls, lbuf[idx])
          /\ idx' = idx + 1
          /\ UNCHANGED <<sent, pipe, lbuf, pc, pubs, excs>>

ProcRaise == /\ pc = "proc" /\ idx <= Len(lbuf) /\ lbuf[idx] \in Poison
             /\ excs < MaxExc
             /\ calls' = Append(calls, lbuf[idx])
             /\ excs' = excs + 1
             /\ pc' = "poll"                              \* back to the top of `while True`; lbuf is kept
             /\ UNCHANGED <<sent, pipe, lbuf, idx, pubs>>

ProcDone == /\ pc = "proc" /\ idx > Len(lbuf)
            /\ lbuf' = <<>>
            /\ pc' = "publish"
            /\ UNCHANGED <<sent, pipe, idx, calls, pubs, excs>>

Publish == /\ pc = "publish"
           /\ pubs' = Len(calls)
           /\ pc' = "poll"
           /\ UNCHANGED <<sent, pipe, lbuf, idx, calls, excs>>

Decoder == Poll \/ Recv \/ ProcOk \/ ProcRaise \/ ProcDone \/ Publish
Next == Send \/ Decoder
-------------------------------------------------------------------------------
TypeOK == /\ sent \in 0..NB /\ pc \in {"poll", "recv", "proc", "publish"} /\ excs \in 0..MaxExc
          /\ \A i \in 1..Len(pipe) : pipe[i] \in 1..NB
          /\ \A i \in 1..Len(lbuf) : lbuf[i] \in 1..NB
          /\ (pc = "recv" => pipe # <<>>)
          /\ (pc = "publish" => lbuf = <<>>)

Iota(n) == [i \in 1..n |-> i]
Done == IF pc = "proc" THEN idx - 1 ELSE 0               \* entries of lbuf already handed to process_raw in this pass

(* Without a raising batch: every batch reaches process_raw exactly once, in sending order, none is lost *)
OnceEach == calls = Iota(Len(calls))
ExactlyOnceInOrder == Poison = {} => OnceEach
NoLoss == Poison = {} => calls \o SubSeq(lbuf, Done + 1, Len(lbuf)) \o pipe = Iota(sent)
(* the table is published only after everything received so far went through process_raw *)
PublishAfterProcessing == pubs <= Len(calls)
PublishComplete == (Poison = {} /\ pc = "publish") => Len(calls) + Len(pipe) = sent

HasPoison == \E i \in 1..Len(lbuf) : lbuf[i] \in Poison
=============================================================================
