INIT Init
NEXT Next
INVARIANT SurvRoundTrip
INVARIANT ICRoundTrip
CHECK_DEADLOCK FALSE
