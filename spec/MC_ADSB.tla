------------------------------- MODULE MC_ADSB ------------------------------
(* Role A for C09/C10/C13: the ME layouts written as (value, width) lists on *)
(* the encoder side and as absolute bit positions on the decoder side agree, *)
(* and the decoded engineering values are the encoded ones.                  *)
EXTENDS ADSB, TLC

VARIABLE j

B10 == {0, 1, 2, 3, 511, 512, 1022, 1023}
Init == j \in ([k : {"ident"}, pos : 1..8, code : 0..63]
               \cup [k : {"vel"}, st : 1..4, s1 : 0..1, s2 : 0..1, v1 : B10]
               \cup [k : {"velfull"}, st : {1, 3}, v : 0..1023]
               \cup [k : {"vr"}, svr : 0..1, src : 0..1] \cup [k : {"diff"}, s : 0..1]
               \cup [k : {"mov"}])
Next == UNCHANGED j /\ FALSE

ES(me) == BuildES(17, 5, 4840952, me)

\* C10: every code at every position decodes at that position only
Ident == j.k = "ident" =>
  LET base == [k \in 1..8 |-> 1 + ((k * 5) % 26)]
      cs == [base EXCEPT ![j.pos] = j.code]
      f == ES(IdentME(1 + (j.code % 4), j.code % 8, cs))
  IN  /\ CharCodes(f) = cs /\ Category(f) = j.code % 8 /\ TypeCode(f) = 1 + (j.code % 4)
      /\ \A k \in 1..8 : CallsignRaw(f)[k] = CharOf(cs[k])
      /\ (LegalChar(j.code) => Len(CallsignText(f)) = 8)

Vel == j.k = "vel" => \A v2 \in B10 :
  LET f == ES(VelME(j.st, 1, 0, 2, j.s1, j.v1, j.s2, v2, 1, 0, 17, 0, 1, 5))
      m == IF j.st \in {2, 4} THEN 4 ELSE 1
  IN  /\ Subtype19(f) = j.st /\ VelS1(f) = j.s1 /\ VelV1(f) = j.v1 /\ VelS2(f) = j.s2 /\ VelV2(f) = v2
      /\ (j.st \in {1, 2} /\ j.v1 > 0 /\ v2 > 0) =>
            /\ Vwe(f) = (IF j.s1 = 1 THEN -1 ELSE 1) * (j.v1 - 1) * m
            /\ Vsn(f) = (IF j.s2 = 1 THEN -1 ELSE 1) * (v2 - 1) * m
            /\ GroundSpeed(f) * GroundSpeed(f) <= Vwe(f) * Vwe(f) + Vsn(f) * Vsn(f)
            /\ (GroundSpeed(f) + 1) * (GroundSpeed(f) + 1) > Vwe(f) * Vwe(f) + Vsn(f) * Vsn(f)
      /\ (j.st \in {3, 4}) => Airspeed(f) = (IF v2 = 0 THEN NA ELSE (v2 - 1) * m)
      /\ VertRate(f) = 16 * 64 /\ AltDiff(f) = -100 /\ VrSrc(f) = 1 /\ NUCv(f) = 2

VelFull == j.k = "velfull" =>
  LET f == ES(VelME(j.st, 0, 1, 0, 0, j.v, 1, 1023 - j.v, 0, 1, 511 - (j.v % 512), 3, 0, j.v % 128))
  IN  VelV1(f) = j.v /\ VelV2(f) = 1023 - j.v /\ VrVal(f) = 511 - (j.v % 512) /\ DiffVal(f) = j.v % 128

Vr == j.k = "vr" => \A v \in 0..511 :
  LET f == ES(VelME(1, 0, 0, 0, 0, 5, 0, 5, j.src, j.svr, v, 0, 0, 0))
  IN  VertRate(f) = (IF v = 0 THEN NA ELSE (IF j.svr = 1 THEN -1 ELSE 1) * (v - 1) * 64) /\ VrSrc(f) = j.src

Diff == j.k = "diff" => \A v \in 0..127 :
  LET f == ES(VelME(1, 0, 0, 0, 0, 5, 0, 5, 0, 0, 0, 0, j.s, v))
  IN  AltDiff(f) = (IF v = 0 THEN NA ELSE (IF j.s = 1 THEN -1 ELSE 1) * (v - 1) * 25)

\* movement table: defined on 1..124, strictly increasing, hits the DO-260B breakpoints
Mov == j.k = "mov" =>
  /\ \A m \in 1..123 : MovementEighths(m) < MovementEighths(m + 1)
  /\ MovementEighths(0) = NA /\ \A m \in 125..127 : MovementEighths(m) = NA
  /\ MovementEighths(1) = 0 /\ MovementEighths(2) = 1 /\ MovementEighths(8) = 7 /\ MovementEighths(9) = 8
  /\ MovementEighths(12) = 14 /\ MovementEighths(13) = 16 /\ MovementEighths(38) = 116 /\ MovementEighths(39) = 120
  /\ MovementEighths(93) = 552 /\ MovementEighths(94) = 560 /\ MovementEighths(108) = 784
  /\ MovementEighths(109) = 800 /\ MovementEighths(123) = 1360 /\ MovementEighths(124) = 1400
=============================================================================
