------------------------------- MODULE StreamSM -----------------------------
(* Role A for C16: a reference incremental framer (keeps the RAW tail from   *)
(* the last frame start between reads) satisfies the framing property for    *)
(* EVERY segmentation of the byte stream: TLC explores Arrive(n) for every   *)
(* n, for streams with the special bytes (0x1A, '1', '3', '$', '*', ';',     *)
(* 0x00, 0x8D) at every body position, singly and doubled, with other Beast  *)
(* record types interleaved.                                                 *)
EXTENDS Stream, TLC

CONSTANTS Kinds, Positions, Specials, MaxChunk

VARIABLES kind, frs, wire, p, rxbuf, out

vars == <<kind, frs, wire, p, rxbuf, out>>

(* ---------------- reference framers: raw buffer -> <<messages, tail>> ---------------- *)
RefBeast(b) ==
  LET n == Len(b)
      RECURSIVE Scan(_, _, _, _)
      \* i: next index; cur: unescaped bytes of the open record (type byte first); st: index of its 0x1A (0 = none); acc: emitted
      Scan(i, cur, st, acc) ==
        IF i > n THEN <<acc, IF st = 0 THEN <<>> ELSE SubSeq(b, st, n)>>
        ELSE IF b[i] = ESC THEN
               IF i = n THEN <<acc, IF st = 0 THEN SubSeq(b, i, n) ELSE SubSeq(b, st, n)>>
               ELSE IF b[i + 1] = ESC THEN Scan(i + 2, IF st = 0 THEN cur ELSE Append(cur, ESC), st, acc)
               ELSE Scan(i + 1, <<>>, i, IF st # 0 /\ cur # <<>> THEN Append(acc, cur) ELSE acc)
             ELSE Scan(i + 1, IF st = 0 THEN cur ELSE Append(cur, b[i]), st, acc)
  IN  Scan(1, <<>>, 0, <<>>)

\* the client's message for an unescaped Beast record mm = <<type>> \o body
BeastMsg(mm) == IF Len(mm) < 2 THEN <<>> ELSE BeastAdmit([ty |-> mm[1], body |-> SubSeq(mm, 2, Len(mm))])

IsHexChar(c) == (c >= 48 /\ c <= 57) \/ (c >= 65 /\ c <= 70) \/ (c >= 97 /\ c <= 102)
RefRaw(b) ==
  LET n == Len(b)
      RECURSIVE Scan(_, _, _, _)
      Scan(i, cur, st, acc) ==      \* st: index of the open '*' (0 = none)
        IF i > n THEN <<acc, IF st = 0 THEN <<>> ELSE SubSeq(b, st, n)>>
        ELSE IF b[i] = STAR THEN Scan(i + 1, <<>>, i, acc)
        ELSE IF b[i] = SEMI THEN Scan(i + 1, <<>>, 0, IF st # 0 THEN Append(acc, cur) ELSE acc)
        ELSE Scan(i + 1, IF st # 0 /\ IsHexChar(b[i]) THEN Append(cur, b[i]) ELSE cur, st, acc)
  IN  Scan(1, <<>>, 0, <<>>)

RefSky(b) ==
  LET RECURSIVE Go(_, _)
      Go(rest, acc) ==
        IF Len(rest) <= 24 THEN <<acc, rest>>
        ELSE IF rest[1] = DOLLAR /\ rest[25] = DOLLAR
             THEN Go(SubSeq(rest, 25, Len(rest)), Append(acc, SkyAdmit([pl |-> SubSeq(rest, 2, 15), tail |-> <<>>])))
             ELSE Go(Tail(rest), acc)
  IN  Go(b, <<>>)

RefRead(k, b) ==
  IF k = "beast" THEN LET r == RefBeast(b) IN <<SelectSeq([i \in 1..Len(r[1]) |-> BeastMsg(r[1][i])], LAMBDA m : m # <<>>), r[2]>>
  ELSE IF k = "raw" THEN RefRaw(b) ELSE RefSky(b)

(* ---------------- the streams ---------------- *)
Body(n, q, s, dbl) == [k \in 1..n |-> IF k = q \/ (dbl /\ k = q + 1) THEN s ELSE (17 * k + 3) % 251]
\* payload first byte decides DF: make record 2 a DF17 long message unless the special byte lands there
BeastStream(q, s, dbl, v) ==
  LET b1 == [Body(14, 0, 0, FALSE) EXCEPT ![8] = 93]                      \* DF11 short (0x5D)
      b2raw == Body(21, q, s, dbl)
      b2 == IF q = 8 \/ (dbl /\ q = 7) THEN b2raw ELSE [b2raw EXCEPT ![8] = 141]    \* DF17 long (0x8D)
      r3 == CASE v = 0 -> [ty |-> 49, body |-> Body(9, 3, s, FALSE)]      \* Mode-AC record with the special in it
              [] v = 1 -> [ty |-> 52, body |-> Body(9, 9, s, FALSE)]      \* status record ending in the special
              [] OTHER -> [ty |-> 50, body |-> [Body(14, 14, s, FALSE) EXCEPT ![8] = 32]]   \* DF4 short ending in the special
      b4 == [Body(21, 1, s, TRUE) EXCEPT ![8] = 160]                      \* DF20 long, special doubled at the very start
  IN  <<[ty |-> 50, body |-> b1], [ty |-> 51, body |-> b2], r3, [ty |-> 51, body |-> b4], [ty |-> 50, body |-> b1]>>

HexOf(bytes) == TextOfBytes(bytes)
RawStream(q, s, v) ==
  LET t1 == HexOf(Body(7, 0, 0, FALSE))
      t2 == HexOf(Body(14, (q % 14) + 1, s, FALSE))
      low(t) == [k \in 1..Len(t) |-> IF t[k] >= 65 /\ t[k] <= 70 /\ k % 2 = v % 2 THEN t[k] + 32 ELSE t[k]]
      sep == CASE v = 0 -> <<10>> [] v = 1 -> <<13, 10>> [] OTHER -> <<>>
  IN  <<[text |-> t1, sep |-> sep], [text |-> low(t2), sep |-> sep], [text |-> t1, sep |-> <<>>], [text |-> t2, sep |-> sep]>>

SkyStream(q, s, v) ==
  LET pl(x, lng) == [Body(14, (q % 14) + 1, s, FALSE) EXCEPT ![1] = IF lng THEN 141 ELSE 93]
      tl == Body(9, (q % 9) + 1, s, v = 1)
  IN  <<[pl |-> pl(1, TRUE), tail |-> tl], [pl |-> pl(2, FALSE), tail |-> tl], [pl |-> pl(3, TRUE), tail |-> Body(9, 0, 0, FALSE)],
        [pl |-> pl(4, v = 0), tail |-> tl]>>

Init ==
  /\ kind \in Kinds
  /\ \E q \in Positions, s \in Specials, v \in 0..2, dbl \in BOOLEAN :
        frs = IF kind = "beast" THEN BeastStream(q, s, dbl, v)
              ELSE IF kind = "raw" THEN RawStream(q, s, v) ELSE SkyStream(q, s, v)
  /\ wire = WireOf(kind, frs)
  /\ p = 0 /\ rxbuf = <<>> /\ out = <<>>

\* n more bytes arrive and the client reads its buffer
Arrive(n) ==
  /\ n <= Len(wire) - p
  /\ LET nb == rxbuf \o SubSeq(wire, p + 1, p + n)
         r == RefRead(kind, nb)
     IN  /\ out' = out \o r[1]
         /\ rxbuf' = r[2]
  /\ p' = p + n
  /\ UNCHANGED <<kind, frs, wire>>

\* the link is idle: the receive call times out and the client looks at what it already holds (TcpClient.run: zmq.error.Again)
Idle ==
  /\ LET r == RefRead(kind, rxbuf)
     IN  /\ out' = out \o r[1]
         /\ rxbuf' = r[2]
  /\ UNCHANGED <<kind, frs, wire, p>>

Next == (\E n \in 1..MaxChunk : Arrive(n)) \/ Idle

FramingHolds == Framing(kind, frs, p, out)
\* nothing is ever handed over twice or out of order: the output only grows (action property)
AppendOnly == [][Len(out') >= Len(out) /\ SubSeq(out', 1, Len(out)) = out]_vars
\* at the end of the stream everything that can be delivered has been delivered
Complete == p = Len(wire) => out = OutUpTo(kind, frs, IF kind = "raw" THEN Len(frs) ELSE Len(frs) - 1)
\* a read without new bytes is a no-op: nothing is handed over and the kept remainder is a fixed point of the framer
IdleNoOp == [][p' = p => (out' = out /\ rxbuf' = rxbuf)]_vars
Spec == Init /\ [][Next]_vars
=============================================================================
