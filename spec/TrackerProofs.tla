---------------------------- MODULE TrackerProofs ----------------------------
(* TLAPS: the staleness bound of C17 for ALL time stamps (TLC checks it on the time steps of TrackerSM and on recorded   *)
(* histories).  Times are in half seconds as in module Tracker: a message heard at t sets live = t \div 2 (int(t) of    *)
(* the code, in whole seconds), and Evict drops an entry when tnow - 2 * live > 120 (t - live > cache_timeout = 60 s):  *)
(* LiveOf and Evicted of module TrackerTime, the very definitions module Tracker is built on.                            *)
EXTENDS TrackerTime, TLAPS

\* the property's two bounds: heard within the last 59 s (118 half seconds) => still listed; silent for more than 61 s => gone
THEOREM FreshKept == \A t, tnow \in Int : tnow - t <= 118 => ~Evicted(LiveOf(t), tnow)
  BY DEF LiveOf, Evicted
THEOREM StaleDropped == \A t, tnow \in Int : tnow - t > 122 => Evicted(LiveOf(t), tnow)
  BY DEF LiveOf, Evicted
\* on the half-second grid the bounds are in fact 59.5 s / 60.5 s ...
THEOREM FreshKeptTight == \A t, tnow \in Int : tnow - t <= 119 => ~Evicted(LiveOf(t), tnow)
  BY DEF LiveOf, Evicted
THEOREM StaleDroppedTight == \A t, tnow \in Int : tnow - t >= 121 => Evicted(LiveOf(t), tnow)
  BY DEF LiveOf, Evicted
\* ... and exactly 60 s of silence goes either way (live is truncated to whole seconds): the bounds cannot meet
THEOREM GapIsReal == /\ \E t, tnow \in Int : tnow - t = 120 /\ ~Evicted(LiveOf(t), tnow)
                     /\ \E t, tnow \in Int : tnow - t = 120 /\ Evicted(LiveOf(t), tnow)
  <1>1. 0 \in Int /\ 120 \in Int /\ 120 - 0 = 120 /\ ~Evicted(LiveOf(0), 120)
    BY DEF LiveOf, Evicted
  <1>2. 1 \in Int /\ 121 \in Int /\ 121 - 1 = 120 /\ Evicted(LiveOf(1), 121)
    BY DEF LiveOf, Evicted
  <1>3. \E t, tnow \in Int : tnow - t = 120 /\ ~Evicted(LiveOf(t), tnow)
    BY <1>1
  <1>4. \E t, tnow \in Int : tnow - t = 120 /\ Evicted(LiveOf(t), tnow)
    BY <1>2
  <1> QED BY <1>3, <1>4
=============================================================================
