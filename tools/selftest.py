#!/venv/bin/python
"""Regression test of the machinery itself: every seeded change under /verif/seeded is re-applied to a scratch worktree of the
current /repo HEAD and the check of the property it targets must report it (exit 1 with a VIOLATION line) - except seeds
whose meta.json says `expected: "drift"` (the property as stated still holds; the check must print MODEL-DRIFT and exit 0).
    tools/selftest.py [id ...]        (default: all; ~1-2 min per seed)
Never touches /repo's working tree or /verif/evidence (checks run with VERIF_REPO=<scratch worktree>)."""
import json
import os
import subprocess
import sys

VERIF = os.path.dirname(os.path.dirname(os.path.abspath(__file__)))


def main():
    want = sys.argv[1:]
    root = os.path.join(VERIF, "seeded")
    bad = 0
    for d in sorted(os.listdir(root)):
        if want and d not in want:
            continue
        meta = json.load(open(os.path.join(root, d, "meta.json")))
        prop = meta.get("caught_via", meta["property"])       # a change that breaks another property more visibly than its target
        p = subprocess.run([sys.executable, os.path.join(VERIF, "tools", "seedcheck.py"), prop, "--src", os.path.join(root, d),
                            "--name", d, "--checks", prop], stdout=subprocess.PIPE, stderr=subprocess.STDOUT, text=True)
        m2 = json.load(open(os.path.join(root, d, "meta.json")))
        caught = prop in m2.get("caught_by", [])
        drift = any("MODEL-DRIFT" in l for l in m2["what_was_run"]["checks"].get(prop, {}).get("lines", []))
        expect_drift = meta.get("expected") == "drift"
        if meta.get("expected") == "missed":
            # a recorded limit of the checks (DESIGN 9.3): re-run for information, never counted as a regression
            print("%-6s %-4s %s" % (d, prop, "known limit - " + ("now reported" if caught else "still missed")))
            m2["expected"], m2["why_missed"] = "missed", meta.get("why_missed", "")
            json.dump(m2, open(os.path.join(root, d, "meta.json"), "w"), indent=1)
            continue
        ok = (drift and not caught) if expect_drift else caught
        print("%-6s %-4s %s" % (d, prop, "ok (%s)" % ("MODEL-DRIFT" if expect_drift else "VIOLATION") if ok else "MISSED"))
        if "caught_via" in meta:
            m2["caught_via"], m2["note"] = meta["caught_via"], meta.get("note", "")
        if expect_drift:
            m2["expected"] = "drift"
            json.dump(m2, open(os.path.join(root, d, "meta.json"), "w"), indent=1)
        bad += 0 if ok else 1
    sys.exit(1 if bad else 0)


if __name__ == "__main__":
    main()
