-------------------------- MODULE DecodeLoopProofs --------------------------
(* TLAPS: safety of the decoder loop for ANY number of batches and ANY set of raising batches (TLC checks the same     *)
(* properties, and more, for NB <= 7 and five Poison sets): the table is published only after every batch handed to    *)
(* process_raw so far, and the loop's variables keep their types (in particular recv is only reached with a non-empty  *)
(* pipe and the for-loop index stays inside the batch list).                                                           *)
EXTENDS DecodeLoop, TLAPS, SequenceTheorems

Spec == Init /\ [][Next]_vars

Inv == /\ pubs \in Nat /\ sent \in Nat /\ idx \in Nat
       /\ calls \in Seq(Nat) /\ lbuf \in Seq(Nat) /\ pipe \in Seq(Nat)
       /\ pc \in {"poll", "recv", "proc", "publish"}
       /\ (pc = "proc" => idx >= 1)
       /\ (pc = "recv" => pipe # <<>>)
       /\ pubs <= Len(calls)

THEOREM PublishedOnlyAfterProcessing == ASSUME NB \in Nat, Poison \subseteq Nat, MaxExc \in Nat PROVE Spec => []PublishAfterProcessing
<1>1. Init => Inv
  BY DEF Init, Inv
<1>2. Inv /\ [Next]_vars => Inv'
  <2> SUFFICES ASSUME Inv, [Next]_vars PROVE Inv'
    OBVIOUS
  <2>1. CASE Send
    <3>1. pipe' \in Seq(Nat) /\ pipe' # <<>>
      BY <2>1, AppendProperties DEF Send, Inv
    <3> QED BY <2>1, <3>1 DEF Send, Inv
  <2>2. CASE Poll BY <2>2 DEF Poll, Inv
  <2>3. CASE Recv
    <3>1. Head(pipe) \in Nat /\ Tail(pipe) \in Seq(Nat)
      BY <2>3, HeadTailProperties DEF Recv, Inv
    <3>2. lbuf' \in Seq(Nat)
      BY <2>3, <3>1, AppendProperties DEF Recv, Inv
    <3> QED BY <2>3, <3>1, <3>2 DEF Recv, Inv
  <2>4. CASE ProcOk
    <3>0. idx \in 1..Len(lbuf)
      BY <2>4 DEF ProcOk, Inv
    <3>1. lbuf[idx] \in Nat
      BY <3>0, ElementOfSeq DEF Inv
    <3>2. calls' \in Seq(Nat) /\ Len(calls') = Len(calls) + 1
      BY <2>4, <3>1, AppendProperties DEF ProcOk, Inv
    <3> QED BY <2>4, <3>2 DEF ProcOk, Inv
  <2>5. CASE ProcRaise
    <3>0. idx \in 1..Len(lbuf)
      BY <2>5 DEF ProcRaise, Inv
    <3>1. lbuf[idx] \in Nat
      BY <3>0, ElementOfSeq DEF Inv
    <3>2. calls' \in Seq(Nat) /\ Len(calls') = Len(calls) + 1
      BY <2>5, <3>1, AppendProperties DEF ProcRaise, Inv
    <3> QED BY <2>5, <3>2 DEF ProcRaise, Inv
  <2>6. CASE ProcDone
    <3>1. lbuf' \in Seq(Nat)
      BY <2>6 DEF ProcDone
    <3> QED BY <2>6, <3>1 DEF ProcDone, Inv
  <2>7. CASE Publish BY <2>7 DEF Publish, Inv
  <2>8. CASE UNCHANGED vars BY <2>8 DEF vars, Inv
  <2> QED BY <2>1, <2>2, <2>3, <2>4, <2>5, <2>6, <2>7, <2>8 DEF Next, Decoder
<1>3. Inv => PublishAfterProcessing
  BY DEF Inv, PublishAfterProcessing
<1> QED BY <1>1, <1>2, <1>3, PTL DEF Spec
=============================================================================
