------------------------------- MODULE TV_Aero ------------------------------
(* C20: relational monitors over integer-projected observations of           *)
(* pyModeS.aero (the spec cannot compute powers / roots; it checks the       *)
(* relations the statement lists, against generated ISO 2533 tables).        *)
EXTENDS AeroTable, Integers, Sequences

AbsV(x) == IF x < 0 THEN -x ELSE x
\* every observation is range-checked before any arithmetic: a wildly wrong value is a wrong value, not an overflow in the verdict
Sane(x) == x > -1000000000 /\ x < 1000000000
SaneAll(s) == \A i \in 1..Len(s) : Sane(s[i])
\* 0.1 %; the first conjunct keeps the product inside TLC's 32-bit integers when an observation is wildly off
Within01pct(x, t) == AbsV(x - t) <= 2000000 /\ AbsV(x - t) * 1000 <= t
Rel1e6(a, b) == AbsV(a - b) <= (b \div 1000000) + 1          \* 1e-6 relative (+1 unit of projection)

\* e.k: table row (H = -500 + 500 (k-1) m); e.p in 0.01 Pa, e.rho in 1e-7 kg/m3, e.T in mK
V_aero_isa(e) ==
  LET t == IsaTable[e.k] IN
  IF ~SaneAll(<<e.p, e.rho, e.T>>) THEN "isa_value_out_of_range"
  ELSE IF ~Within01pct(e.p, t[1]) THEN "isa_pressure_off_by_more_than_0.1_percent"
  ELSE IF ~Within01pct(e.rho, t[2]) THEN "isa_density_off_by_more_than_0.1_percent"
  ELSE IF ~Within01pct(e.T, t[3]) THEN "isa_temperature_off_by_more_than_0.1_percent"
  ELSE "ok"

\* the same for an altitude buffer updated in place between the evaluations (e.steps: one ISA observation per step)
V_aero_track(e) ==
  LET bad == {i \in 1..Len(e.steps) : V_aero_isa(e.steps[i]) # "ok" \/ e.steps[i].same # 1} IN
  IF bad = {} THEN "ok" ELSE "isa_of_an_updated_altitude_buffer_is_stale"

\* values just below / just above 11 000 m (p in 1e-4 Pa, rho in 1e-9, T in 1e-6 K)
V_aero_tropopause(e) ==
  IF ~(SaneAll(e.lo) /\ SaneAll(e.hi)) THEN "isa_value_out_of_range"
  ELSE IF \A k \in 1..3 : Rel1e6(e.lo[k], e.hi[k]) THEN "ok" ELSE "atmosphere_discontinuous_at_tropopause"

\* v -> f -> f^-1 in micrometres per second (Mach in 1e-9)
V_aero_inverse(e) == IF Sane(e.back) /\ Rel1e6(e.back, e.v) THEN "ok" ELSE "conversion_pair_not_inverse"

\* rows sorted by input: strictly increasing output
V_aero_monotone(e) ==
  IF \A k \in 1..(Len(e.rows) - 1) : (e.rows[k + 1][1] > e.rows[k][1]) => (e.rows[k + 1][2] > e.rows[k][2])
  THEN "ok" ELSE "conversion_not_strictly_increasing"

\* tas given; eas, cas derived (micrometres per second); at H = 0 all three coincide
\* "at altitude" = at or above sea level (below it the air is denser than at sea level and EAS exceeds TAS)
V_aero_order(e) ==
  IF ~SaneAll(<<e.eas, e.cas>>) THEN "speed_out_of_range"
  ELSE IF e.h >= 0 /\ e.eas > e.tas + 1 THEN "tas_below_eas"
  ELSE IF e.h >= 0 /\ e.eas > e.cas + 1 THEN "cas_below_eas"
  ELSE IF e.h = 0 /\ ~(Rel1e6(e.eas, e.tas) /\ Rel1e6(e.cas, e.tas)) THEN "sea_level_speeds_differ"
  ELSE "ok"

\* great circle: whole-degree coordinates; d12, d21 in decimetres; hav = round(1e4 * hav(d/R)); brg in millidegrees
SinD(d) == SinTable[d + 1]                      \* d in 0..90, x 1e6
CosAbs(d) == IF d <= 90 THEN SinD(90 - d) ELSE -SinD(d - 90)      \* d in 0..180
CosDeg(d) == LET x == IF d < 0 THEN -d ELSE d  y == IF x > 180 THEN 360 - x ELSE x IN CosAbs(y)
RDiv(a, b) == (2 * a + b) \div (2 * b)          \* rounded division, b > 0 (floor semantics of \div handle a < 0)
HavWant(la1, lo1, la2, lo2) ==       \* x 1e4, every step rounded to the nearest unit
  LET a == RDiv(1000000 - CosDeg(la1 - la2), 200)
      c1 == RDiv(CosDeg(la1), 50)  c2 == RDiv(CosDeg(la2), 50)      \* x 2e4 (doubled products stay below 2^31)
      b == RDiv(1000000 - CosDeg(lo1 - lo2), 200)                   \* x 1e4
  IN  a + RDiv(RDiv(c1 * c2, 40000) * b, 10000)
V_aero_distance(e) ==
  IF ~SaneAll(<<e.d12, e.d21, e.hav, e.brg>>) THEN "distance_out_of_range"
  ELSE IF AbsV(e.d12 - e.d21) > 1 THEN "distance_not_symmetric"
  ELSE IF AbsV(e.hav - HavWant(e.la1, e.lo1, e.la2, e.lo2)) > 3 THEN "distance_disagrees_with_haversine"
  ELSE IF e.brg < 0 \/ e.brg >= 360000 THEN "bearing_out_of_range"
  ELSE "ok"

\* the radius argument H (a multiple of 500 m, e.hk = H / 500): d(H) - d(0) = d(0) * H / r_earth, r_earth / 500 = 12742;
\* e.d0, e.dh, e.dd (default H) in centimetres (legs below 200 km) or metres; tolerance 2 units + 1e-6 relative
V_aero_distance_scale(e) ==
  IF ~SaneAll(<<e.d0, e.dh, e.dd>>) \/ e.d0 < 0 \/ e.d0 > 25000000 THEN "distance_out_of_range"
  ELSE IF e.dd # e.d0 THEN "distance_default_radius_differs_from_H_0"
  ELSE IF AbsV((e.dh - e.d0) - RDiv(e.d0 * e.hk, 12742)) > 2 + (e.d0 \div 1000000) THEN "distance_does_not_scale_with_the_radius"
  ELSE "ok"

\* scalar and numpy-array arguments give the same value
V_aero_same(e) == IF e.a = e.b THEN "ok" ELSE "scalar_and_array_results_differ"
=============================================================================
