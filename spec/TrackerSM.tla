------------------------------ MODULE TrackerSM -----------------------------
(* Role A for C17: aircraft fly (<= 600 kt airborne, <= 70 kt on the surface), *)
(* broadcast CPR positions / other squitters / Comm-B replies, and the       *)
(* receiver processes batches with the documented algorithm (Tracker.Process).*)
(* TLC explores every interleaving and spacing within the bounds and checks  *)
(* the three invariants of the property: Fresh, Gate, Accurate.              *)
EXTENDS Tracker

CONSTANTS Start,       \* index of the start scenario
          DTs,         \* allowed time steps, in half seconds
          MaxLevel

VARIABLES now, air, tab, pend, heard, seen, truth

vars == <<now, air, tab, pend, heard, seen, truth>>

Pole == 4194304
Half == 8388608
AC == {1, 2}
Addr(a) == 4840950 + a
Unknown == 11259375

\* start scenarios: positions (BAM24), velocities (BAM24 units per half second; 600 kt = 64.7 units per half second)
Scen ==
  <<  \* 1: mid-latitude, crossing tracks
      [p |-> <<[a |-> 2423000, o |-> 205000, va |-> 60, vo |-> 20, mode |-> "air"], [a |-> 2424000, o |-> 206000, va |-> -45, vo |-> -45, mode |-> "air"]>>, rx |-> <<TRUE, 151440, 12810>>],
      \* 2: across the NL transition at 10.47 deg (NL 59/58), north-bound and south-bound
      [p |-> <<[a |-> 487900, o |-> -3000, va |-> 64, vo |-> 0, mode |-> "air"], [a |-> 488100, o |-> 5000, va |-> -64, vo |-> 10, mode |-> "air"]>>, rx |-> <<TRUE, 30500, 0>>],
      \* 3: across the equator and the Greenwich meridian
      [p |-> <<[a |-> -300, o |-> -400, va |-> 40, vo |-> 50, mode |-> "air"], [a |-> 500, o |-> 300, va |-> -40, vo |-> -50, mode |-> "surf"]>>, rx |-> <<TRUE, 0, 0>>],
      \* 4: across the antimeridian, east-bound and west-bound
      [p |-> <<[a |-> 1864000, o |-> 8388000, va |-> 5, vo |-> 64, mode |-> "air"], [a |-> -1864000, o |-> -8388300, va |-> -5, vo |-> -64, mode |-> "air"]>>, rx |-> <<TRUE, 116500, 524280>>],
      \* 5: high latitude (79 deg), fast east-west and north
      [p |-> <<[a |-> 3681000, o |-> 100000, va |-> 10, vo |-> 64, mode |-> "air"], [a |-> 3690000, o |-> -100000, va |-> 64, vo |-> 0, mode |-> "air"]>>, rx |-> <<TRUE, 230000, 6250>>],
      \* 6: on the surface next to the receiver, taxiing, one taking off
      [p |-> <<[a |-> 2435000, o |-> 222000, va |-> 7, vo |-> 3, mode |-> "surf"], [a |-> 2435500, o |-> 222500, va |-> -6, vo |-> 6, mode |-> "surf"]>>, rx |-> <<TRUE, 152200, 13880>>]
  >>

Rx == Scen[Start].rx
WrapLon(o) == IF o >= Half THEN o - 16777216 ELSE IF o < -Half THEN o + 16777216 ELSE o
\* surface traffic moves at most 70 kt: velocity scaled by 1/9
Step(c, dt) ==
  LET k == IF c.mode = "surf" THEN 9 ELSE 1
      na == c.a + (c.va * dt) \div k
  IN  [c EXCEPT !.a = IF na > 3728270 THEN 3728270 ELSE IF na < -3728270 THEN -3728270 ELSE na,      \* stay within +-80 deg
                !.o = WrapLon(c.o + (c.vo * dt) \div k)]

Init ==
  /\ now = 2000
  /\ air = [a \in AC |-> Scen[Start].p[a] @@ [since |-> 0]]
  /\ tab = <<>>
  /\ pend = [adsb |-> <<>>, commb |-> <<>>]
  /\ heard = <<>>          \* addr -> time last heard (ADS-B, or Comm-B while listed)
  /\ seen = {}             \* addresses ever seen in ADS-B
  /\ truth = <<>>          \* addr -> [t, a, o, kind] of its latest position squitter

Tick(dt) ==
  /\ now' = now + dt
  /\ air' = [a \in AC |-> Step(air[a], dt)]
  /\ UNCHANGED <<tab, pend, heard, seen, truth>>

PosSquitter(a, oe) ==
  LET c == air[a]
      kind == IF c.mode = "surf" THEN "surf" ELSE "air"
      en == Encode(kind, c.a, c.o, oe)
      m == [addr |-> Addr(a), t |-> now, cls |-> kind, oe |-> oe, yz |-> en.yz, xz |-> en.xz, skip |-> FALSE]
  IN  /\ pend' = [pend EXCEPT !.adsb = Append(@, m)]
      /\ truth' = (Addr(a) :> [t |-> now, a |-> c.a, o |-> c.o, kind |-> kind]) @@ truth
      /\ UNCHANGED <<now, air, tab, heard, seen>>

OtherSquitter(a) ==
  /\ pend' = [pend EXCEPT !.adsb = Append(@, [addr |-> Addr(a), t |-> now, cls |-> "ident", oe |-> 0, yz |-> 0, xz |-> 0, skip |-> FALSE])]
  /\ UNCHANGED <<now, air, tab, heard, seen, truth>>

CommBReply(ad) ==
  /\ pend' = [pend EXCEPT !.commb = Append(@, [addr |-> ad, t |-> now, cls |-> "commb", oe |-> 0, yz |-> 0, xz |-> 0, skip |-> FALSE])]
  /\ UNCHANGED <<now, air, tab, heard, seen, truth>>

\* take-off / landing; landing only near the receiver (surface decoding needs the receiver within 45 NM)
NearRx(c) == Abs(c.a - 16 * Rx[2]) < 25000 /\ Abs(WrapLon(c.o - 16 * Rx[3])) < 25000
\* a mode is held for more than 10 s: two SURFACE frames that may be paired (< 10 s apart) are then never separated
\* by a flight leg at airborne speed (surface CPR pairing tolerates ~0.7 NM, i.e. surface speeds)
SwitchMode(a) ==
  /\ (air[a].mode = "surf" \/ NearRx(air[a]))
  /\ now - air[a].since > 20
  /\ air' = [air EXCEPT ![a].mode = IF @ = "surf" THEN "air" ELSE "surf", ![a].since = now]
  /\ UNCHANGED <<now, tab, pend, heard, seen, truth>>

Proc ==
  /\ Len(pend.adsb) + Len(pend.commb) > 0
  /\ LET nt == Process(tab, pend.adsb, pend.commb, now, Rx)
         \* who was heard: every ADS-B sender; a Comm-B sender only if it was listed when its reply was processed
         adsbA == {pend.adsb[k].addr : k \in 1..Len(pend.adsb)}
         lastT(seq, x) == LET ks == {k \in 1..Len(seq) : seq[k].addr = x} IN seq[CHOOSE k \in ks : \A q \in ks : q <= k].t
         h1 == [x \in adsbA |-> lastT(pend.adsb, x)]
         tmid == Process(tab, pend.adsb, <<>>, 0, Rx)       \* table as the Comm-B pass sees it (no eviction yet)
         cbA == {pend.commb[k].addr : k \in 1..Len(pend.commb)} \cap DOMAIN tmid
         h2 == [x \in cbA |-> lastT(pend.commb, x)]
     IN  /\ tab' = nt
         /\ heard' = [x \in DOMAIN h1 \cup DOMAIN h2 \cup DOMAIN heard |->
                        Max(IF x \in DOMAIN h1 THEN h1[x] ELSE 0, Max(IF x \in DOMAIN h2 THEN h2[x] ELSE 0, IF x \in DOMAIN heard THEN heard[x] ELSE 0))]
         /\ seen' = seen \cup adsbA
  /\ pend' = [adsb |-> <<>>, commb |-> <<>>]
  /\ UNCHANGED <<now, air, truth>>

Next ==
  \/ \E dt \in DTs : Tick(dt)
  \/ \E a \in AC, oe \in 0..1 : PosSquitter(a, oe)
  \/ \E a \in AC : OtherSquitter(a) \/ SwitchMode(a) \/ CommBReply(Addr(a))
  \/ CommBReply(Unknown)
  \/ Proc

Spec == Init /\ [][Next]_vars

Bounded == TLCGet("level") <= MaxLevel

(* ----------------------------- the property ----------------------------- *)
\* evaluated when nothing is pending, i.e. right after a process_raw call (messages all carry the time `now` of
\* their emission; a call processes everything emitted since the previous call)
Settled == Len(pend.adsb) + Len(pend.commb) = 0
Fresh == Settled =>
  \A x \in DOMAIN heard :
     /\ (now - heard[x] <= 118) => x \in DOMAIN tab            \* heard within 59 s: listed
\* absence is only guaranteed relative to the last call's clock; checked on the trace (tnow is the call's argument)
Gate == DOMAIN tab \subseteq seen
Accurate == Settled =>
  \A x \in DOMAIN tab :
     (tab[x].hasPos /\ x \in DOMAIN truth /\ truth[x].t = tab[x].tpos) =>
        /\ AccurateLat(tab[x].pk, truth[x].a, tab[x].L, tab[x].N)
        /\ AccurateLon(tab[x].pk, truth[x].o, tab[x].M, tab[x].ni)
\* a position message that could be decoded leaves a position (no silent loss of tpos)
=============================================================================
