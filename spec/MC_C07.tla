------------------------------- MODULE MC_C07 -------------------------------
(* Role A for C07/C08: the altitude and identity codecs invert each other,   *)
(* exhaustively over all 8192 thirteen-bit codes.                            *)
EXTENDS AltId, FiniteSets, TLC

VARIABLE j

GillhamImage == {EncodeGillham(h) : h \in LegalGillhamAlts}

Init == j \in ([k : {"g"}, q : 0..1279] \cup [k : {"q"}, n : 0..2047] \cup [k : {"m"}, n : 0..4095]
               \cup [k : {"code"}, hi : 0..63] \cup [k : {"sq"}, a : 0..7, b : 0..7] \cup [k : {"card"}])
Next == UNCHANGED j /\ FALSE

\* every legal altitude round-trips and lands on an M=0,Q=0 code
Gillham == j.k = "g" =>
   LET h == 100 * j.q - 1200  c == EncodeGillham(h)
   IN  CB(c, 7) = 0 /\ CB(c, 9) = 0 /\ c # 0 /\ DecodeAC13(c) = h
\* the encoder is injective (1280 distinct codes)
Inj == j.k = "card" => Cardinality(GillhamImage) = 1280
\* consecutive altitudes differ in exactly one bit (the defining property of the Gillham code)
UnitDistance == (j.k = "g" /\ j.q < 1279) =>
   LET x == EncodeGillham(100 * j.q - 1200) ^^ EncodeGillham(100 * (j.q + 1) - 1200)
   IN  x \in {Pow2(k) : k \in 0..12}
QCode == j.k = "q" => (DecodeAC13(EncodeQ(j.n)) = 25 * j.n - 1000)
MCode == j.k = "m" => (j.n = 0 \/ DecodeAC13(EncodeM(j.n)) = (j.n * 82021) \div 25000)
\* every code: classified exactly as the property says
AllCodes == j.k = "code" => \A lo \in 0..127 :
   LET c == j.hi * 128 + lo  d == DecodeAC13(c)
   IN  IF c = 0 THEN d = NoAlt
       ELSE IF CB(c, 7) = 1 THEN d >= 0 /\ d <= 13435
       ELSE IF CB(c, 9) = 1 THEN d % 25 = 0 /\ d >= -1000 /\ d <= 50175
       ELSE (IF c \in GillhamImage THEN d \in LegalGillhamAlts ELSE d = NoAlt)
\* identity code: digits round-trip for both X values, all 4096 codes
Squawk == j.k = "sq" => \A c \in 0..7, d \in 0..7, x \in 0..1 :
   SquawkDigits(EncodeSquawk(j.a, j.b, c, d, x)) = <<j.a, j.b, c, d>>
=============================================================================
