------------------------------- MODULE MC_C19 -------------------------------
(* Role A for C19: demodulating what the modulator produced gives the frames *)
(* back (bad-parity DF17 excepted), for frame lists of length 0..2 over all  *)
(* six formats, start offsets of both sample parities, gaps of one and two   *)
(* frame lengths, amplitudes 0.3 / 0.7 / 1.4 and deterministic noise at      *)
(* three levels.  The reference processor (stop at the length implied by the *)
(* DF) is checked for noise up to -10 dB, the length-by-quiet-pair rule the  *)
(* library uses for noise below 0.2 x amplitude.                             *)
EXTENDS Demod, TLC

CONSTANTS MaxFrames, MaxOff
VARIABLE c

Pay(n, p) == [k \in 1..n |-> CASE p = 0 -> (k * 37 + 11) % 256 [] p = 1 -> 255 - ((k * 91) % 256) [] OTHER -> 0]
Long(df, p) == LET d == [Pay(11, p) EXCEPT ![1] = df * 8 + (@ % 8)] IN BuildPI(d, 0)            \* parity closes: syndrome 0
Short(df, p) == LET d == [Pay(4, p) EXCEPT ![1] = df * 8 + (@ % 8)] IN BuildAP(d, 4840952)
BadParity(p) == LET f == Long(17, p) IN [f EXCEPT ![14] = (@ + 1) % 256]
Kinds == {<<"s", 4>>, <<"s", 5>>, <<"s", 11>>, <<"l", 17>>, <<"l", 20>>, <<"l", 21>>, <<"b", 17>>}
FrameOf(kd, p) == IF kd[1] = "s" THEN Short(kd[2], p) ELSE IF kd[1] = "l" THEN Long(kd[2], p) ELSE BadParity(p)
Good(kd) == kd[1] # "b"

\* noise level k (per mille of the amplitude) and pattern
NoiseAt(amp, lvl, pat, k) ==
  CASE pat = 0 -> 0
    [] pat = 1 -> (amp * lvl) \div 1000
    [] OTHER -> (((k * 7919 + 13) % 1000) * ((amp * lvl) \div 1000)) \div 1000

Build(items, off, gapMul, amp, lvl, pat) ==
  LET RECURSIVE B(_, _)
      B(k, acc) ==
        IF k > Len(items) THEN acc
        ELSE LET f == items[k]
                 base == Len(acc)
                 fr == ModFrame(f, amp, LAMBDA q : NoiseAt(amp, lvl, pat, base + q))
                 \* gapMul = 0: exactly one frame length of noise (the frame's 56 / 112 data bits), the minimum the statement allows
                 glen == IF gapMul = 0 THEN 16 * Len(f) ELSE gapMul * (16 + 16 * Len(f))
                 gap == [q \in 1..glen |-> NoiseAt(amp, lvl, pat, base + Len(fr) + q)]
                 nx == acc \o fr \o gap
             IN  B(k + 1, nx)
      lead == [q \in 1..off |-> NoiseAt(amp, lvl, pat, q)]
      body == B(1, lead)
      tail == [q \in 1..420 |-> NoiseAt(amp, lvl, pat, Len(body) + q)]
  IN  body \o tail

Init == c = [ph |-> "root"]
Next ==
  \/ /\ c.ph = "root"
     /\ \E n \in 0..MaxFrames, amp \in {300, 700, 1400}, off \in 0..MaxOff :
          c' = [ph |-> "cfg", n |-> n, amp |-> amp, off |-> off]
  \/ /\ c.ph = "cfg"
     /\ \E ks \in [1..c.n -> Kinds], p \in 0..1, gapMul \in 0..2, nz \in {<<0, 0>>, <<190, 1>>, <<190, 2>>, <<310, 2>>, <<300, 1>>} :
          c' = [ph |-> "case", items |-> [k \in 1..c.n |-> FrameOf(ks[k], (p + k) % 3)],
                good |-> [k \in 1..c.n |-> Good(ks[k])],
                amp |-> c.amp, off |-> c.off, gapMul |-> gapMul, lvl |-> nz[1], pat |-> nz[2]]

Expected == SelectSeq([k \in 1..Len(c.items) |-> IF c.good[k] THEN c.items[k] ELSE <<>>], LAMBDA f : f # <<>>)

\* the reference processor recovers exactly the modulated frames for noise up to -10 dB of the pulses.  History: with the purely
\* absolute preamble template (a '1' position only has to reach 0.2) TLC found a design-level counterexample here - two short
\* frames at amplitude 0.7 and constant noise 0.21: the last pulse of the first frame plus noise passes as a preamble and the
\* second frame is swallowed (finding C19-false-preamble-in-strong-noise).  Demod.IsPreamble now also requires pulses of
\* comparable height, and so does the library since 395dcb0.
AbsNoise == (c.amp * c.lvl) \div 1000
\* (one evaluation of the processor per state: both clauses share it)
Reference == c.ph = "case" =>
   LET o == DemodAll(Build(c.items, c.off, c.gapMul, c.amp, c.lvl, c.pat), TRUE) IN
   /\ o = Expected
   \* whatever the noise: nothing that fails the admission rules is ever returned (no DF17 with a non-zero syndrome)
   /\ \A k \in 1..Len(o) : CheckMsg(BitsOf(o[k]))
\* the quiet-pair rule the library uses is right while the noise stays below 0.2 x amplitude
QuietPairRule == (c.ph = "case" /\ c.lvl < 200) =>
   DemodAll(Build(c.items, c.off, c.gapMul, c.amp, c.lvl, c.pat), FALSE) = Expected
=============================================================================
