--------------------------- MODULE Trace_DecodeLoop --------------------------
(* Role C for the decoder process loop (C17 anchor "decode loop keeps its batch on exception"): executions of the real  *)
(* Decode.run - driven through fake pipe ends along a schedule chosen by TLC or at random - recorded one line per       *)
(* loop step and checked against the actions of module DecodeLoop.  The loop's private state (local_buffer, the        *)
(* position of its for-loop, where it is in the body) is not logged: the spec's own actions determine it.               *)
(*   [ev |-> "start", run, id]              (NB and Poison are the constants of the configuration: one TLC run per set) *)
(*   [ev |-> "act", run, id, a, sent, pipe, calls, pubs, excs]     a = name of the DecodeLoop action just taken,        *)
(*                                                                  the rest = observable state after it                *)
EXTENDS DecodeLoop, TLC, Json, IOUtils

Events == ndJsonDeserialize(IOEnv.TRACE_FILE)

VARIABLES l, failed
mvars == vars

Act(a) == CASE a = "Send" -> Send
            [] a = "Poll" -> Poll
            [] a = "Recv" -> Recv
            [] a = "ProcOk" -> ProcOk
            [] a = "ProcRaise" -> ProcRaise
            [] a = "ProcDone" -> ProcDone
            [] a = "Publish" -> Publish
            [] OTHER -> FALSE

Obs(e) == /\ sent' = e.sent /\ pipe' = e.pipe /\ calls' = e.calls /\ pubs' = e.pubs /\ excs' = e.excs

Safe == /\ TypeOK /\ ExactlyOnceInOrder /\ NoLoss /\ PublishAfterProcessing /\ PublishComplete

TInit == /\ l = 1 /\ failed = FALSE /\ TLCSet(1, 0)
        /\ sent = 0 /\ pipe = <<>> /\ lbuf = <<>> /\ pc = "poll" /\ idx = 0 /\ calls = <<>> /\ pubs = 0 /\ excs = 0

Reject(e, why) == PrintT(<<"REJECT", e.id, why>>) /\ TLCSet(1, TLCGet(1) + 1)

Why(e) == IF ~ENABLED Act(e.a) THEN "loop_step_out_of_order"
          ELSE IF ~ENABLED (Act(e.a) /\ calls' = e.calls) THEN "loop_batch_lost_duplicated_or_reordered"
          ELSE IF ~ENABLED (Act(e.a) /\ pipe' = e.pipe /\ sent' = e.sent) THEN "loop_pipe_content"
          ELSE IF ~ENABLED (Act(e.a) /\ pubs' = e.pubs) THEN "loop_published_before_processing"
          ELSE "loop_exception_count"

TNext ==
  /\ l <= Len(Events)
  /\ l' = l + 1
  /\ LET e == Events[l] IN
     CASE e.ev = "start" ->
            /\ failed' = FALSE
            /\ sent' = 0 /\ pipe' = <<>> /\ lbuf' = <<>> /\ pc' = "poll" /\ idx' = 0 /\ calls' = <<>> /\ pubs' = 0 /\ excs' = 0
       [] e.ev = "act" ->
            IF failed THEN UNCHANGED <<failed, mvars>>
            ELSE \/ /\ Act(e.a) /\ Obs(e)
                    /\ (IF Safe' THEN failed' = FALSE ELSE Reject(e, "loop_invariant") /\ failed' = TRUE)
                 \/ /\ ~ENABLED (Act(e.a) /\ Obs(e))
                    /\ Reject(e, Why(e))
                    /\ failed' = TRUE
                    /\ UNCHANGED mvars

TDone == PrintT(<<"DONE", Len(Events), TLCGet("stats").diameter, TLCGet(1)>>)
=============================================================================
