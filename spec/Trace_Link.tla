------------------------------ MODULE Trace_Link ----------------------------
(* The whole receive path as ONE model: bytes arriving in arbitrary chunks   *)
(* -> framing (Stream) -> NetSource batching -> live table (Tracker).        *)
(* Runs of the real TcpClient/NetSource/Decode objects wired together        *)
(* (virtual clock, fake pipe) are validated step by step:                    *)
(*  [ev |-> "start", run, id, kind, frs, rx]                                  *)
(*  [ev |-> "step", run, id, n, now, handed, sent, post, exc, dup]           *)
(*      n = 0: the link was idle (receive time-out); whatever the loop hands  *)
(*      over or sends during it is judged like any other step                 *)
(*     n bytes arrived at virtual time `now` (half seconds); `handed` = messages the reader returned (text);         *)
(*     `sent` = batches NetSource put on the pipe in this step, each [adsb, commb] of frames (bytes);                 *)
(*     `post` = table projection after Decode.process_raw consumed those batches (as in Trace_Tracker).              *)
(* Checked: Stream.Framing on the cumulative hand-over; the pipe carries exactly the long DF17/18 and DF20/21        *)
(* messages handed over, in order, batched by the NetSource rule (send when more than one ADS-B message is           *)
(* buffered); the table equals Tracker.Process applied to each batch with the read times as timestamps.              *)
EXTENDS Stream, Tracker, TV_CPR, ADSB, Json, IOUtils

Events == ndJsonDeserialize(IOEnv.TRACE_FILE)

VARIABLES l, kind, frs, p, out, failed, tab, rx, la, lc
\* la, lc: NetSource's local ADS-B / Comm-B buffers as sequences of [f |-> frame bytes, t |-> time]

AsText(k, m) == IF k = "raw" THEN m ELSE TextOfBytes(m)
TextOut(k, f, K) == LET o == OutUpTo(k, f, K) IN [i \in 1..Len(o) |-> AsText(k, o[i])]
FramingText(k, f, pp, o) == \E K \in MustCount(k, f, pp)..MayCount(k, f, pp) : o = TextOut(k, f, K)

ClsOf(f) ==
  LET tc == TypeCode(f) IN
  IF tc >= 1 /\ tc <= 4 THEN "ident" ELSE IF tc >= 5 /\ tc <= 8 THEN "surf" ELSE IF tc >= 9 /\ tc <= 18 THEN "air"
  ELSE IF tc = 19 THEN "vel" ELSE "other"
AbsAdsb(m) == [addr |-> IcaoInt(m.f), t |-> m.t, cls |-> ClsOf(m.f), oe |-> OE(m.f), yz |-> YZ(m.f), xz |-> XZ(m.f),
               skip |-> ClsOf(m.f) = "surf" /\ (MovementEighths(SurfMov(m.f)) = NA \/ SurfTrkStatus(m.f) = 0)]
AbsCommB(m) == [addr |-> IcaoInt(m.f), t |-> m.t, cls |-> "commb", oe |-> 0, yz |-> 0, xz |-> 0, skip |-> FALSE]

\* NetSource: the long DF17/18 and DF20/21 messages handed over in this step join the local buffers (stamped `now`)
NewOf(msgs, now, dfs) ==
  LET sel == SelectSeq(msgs, LAMBDA t : Len(t) = 28 /\ DF(BytesOfText(t)) \in dfs)
  IN  [k \in 1..Len(sel) |-> [f |-> BytesOfText(sel[k]), t |-> now]]
Flat(sent, which) ==
  LET RECURSIVE F(_) F(k) == IF k > Len(sent) THEN <<>> ELSE (IF which = "a" THEN sent[k].adsb ELSE sent[k].commb) \o F(k + 1) IN F(1)
\* the property: everything put on the pipe is, in order and once each, the head of what is waiting to be forwarded
ForwardOK(allA, allC, sent) ==
  LET fa == Flat(sent, "a")  fc == Flat(sent, "c") IN
  /\ Len(fa) <= Len(allA) /\ fa = [k \in 1..Len(fa) |-> allA[k].f]
  /\ Len(fc) <= Len(allC) /\ fc = [k \in 1..Len(fc) |-> allC[k].f]
\* the library's batching rule: one batch with everything as soon as more than one ADS-B message waits
RuleBatches(allA, allC) == IF Len(allA) > 1 THEN <<[na |-> Len(allA), nc |-> Len(allC)]>> ELSE <<>>
\* the recorded batches re-attached to the waiting messages (which carry the read times)
Batches(allA, allC, sent) ==
  LET RECURSIVE B(_, _, _)
      B(k, ia, ic) == IF k > Len(sent) THEN <<>>
                      ELSE <<[adsb |-> SubSeq(allA, ia + 1, ia + Len(sent[k].adsb)), commb |-> SubSeq(allC, ic + 1, ic + Len(sent[k].commb))]>>
                           \o B(k + 1, ia + Len(sent[k].adsb), ic + Len(sent[k].commb))
  IN  B(1, 0, 0)

SlotOf(s) == IF s.has = 1 THEN [has |-> TRUE, t |-> s.t, yz |-> s.yz, xz |-> s.xz, cls |-> IF s.tc >= 5 /\ s.tc <= 8 THEN "surf" ELSE "air"] ELSE NoSlot
EntryOf(q) == [live |-> q.live, hasPos |-> q.hp = 1, tpos |-> q.tpos, pk |-> "", L |-> 0, N |-> 60, M |-> 0, ni |-> 1,
               r |-> q.r, s |-> q.s, e |-> SlotOf(q.e), o |-> SlotOf(q.o)]
TableOf(post) == [a \in {post[k].addr : k \in 1..Len(post)} |-> EntryOf(post[CHOOSE k \in 1..Len(post) : post[k].addr = a])]
SameSlot(ms, ps) == ms.has = (ps.has = 1) /\ (ms.has => ms.t = ps.t /\ ms.yz = ps.yz /\ ms.xz = ps.xz /\ ms.cls = SlotOf(ps).cls)
SameEntry(m, q) ==
  /\ m.live = q.live /\ m.hasPos = (q.hp = 1) /\ (m.hasPos => m.tpos = q.tpos) /\ SameSlot(m.e, q.e) /\ SameSlot(m.o, q.o)
  /\ (m.hasPos /\ m.pk # "") => PosMatchModTurn(IF m.pk = "surf" THEN q.posS ELSE q.posA, [L |-> m.L, N |-> m.N, M |-> m.M, ni |-> m.ni], m.pk)
ModelAgrees(mt, post) ==
  /\ DOMAIN mt = {post[k].addr : k \in 1..Len(post)}
  /\ \A k \in 1..Len(post) : SameEntry(mt[post[k].addr], post[k])

\* the table after the batches of this step
TableAfter(batches, now) ==
  LET RECURSIVE B(_, _)
      B(k, tb) == IF k > Len(batches) THEN tb
                  ELSE LET aa == [i \in 1..Len(batches[k].adsb) |-> AbsAdsb(batches[k].adsb[i])]
                           cc == [i \in 1..Len(batches[k].commb) |-> AbsCommB(batches[k].commb[i])]
                           nx == Process(tb, aa, cc, now, rx)
                       IN  B(k + 1, nx)
  IN  B(1, tab)

Init == /\ l = 1 /\ kind = "" /\ frs = <<>> /\ p = 0 /\ out = <<>> /\ failed = FALSE /\ tab = <<>> /\ rx = <<FALSE, 0, 0>>
        /\ la = <<>> /\ lc = <<>> /\ TLCSet(1, 0)

Reject(e, why) == PrintT(<<"REJECT", e.id, why>>) /\ TLCSet(1, TLCGet(1) + 1)

Next ==
  /\ l <= Len(Events)
  /\ l' = l + 1
  /\ LET e == Events[l] IN
     IF e.ev = "start" THEN
          /\ kind' = e.kind /\ frs' = e.frs /\ p' = 0 /\ out' = <<>> /\ failed' = FALSE /\ tab' = <<>>
          /\ rx' = <<e.rx[1] = 1, e.rx[2], e.rx[3]>> /\ la' = <<>> /\ lc' = <<>>
     ELSE LET np == p + e.n
              no == out \o e.handed
              allA == la \o NewOf(e.handed, e.now, {17, 18})
              allC == lc \o NewOf(e.handed, e.now, {20, 21})
              fwd == ForwardOK(allA, allC, e.sent)
              nA == Len(Flat(e.sent, "a"))  nC == Len(Flat(e.sent, "c"))
              ruleOK == [k \in 1..Len(e.sent) |-> [na |-> Len(e.sent[k].adsb), nc |-> Len(e.sent[k].commb)]] = RuleBatches(allA, allC)
              verdict ==
                IF failed THEN "ok"
                ELSE IF e.exc = 1 THEN "link_raised"
                ELSE IF \E k \in 1..Len(e.post) : e.post[k].wild = 1 THEN "link_table_holds_absurd_value"
                ELSE IF ~FramingText(kind, frs, np, no) THEN "link_framing"
                ELSE IF ~fwd THEN "link_netsource_forwarding"
                ELSE IF e.dup = 1 THEN "two_keys_for_one_address"
                ELSE IF ~ruleOK THEN "drift:link_batching_differs_from_model"
                ELSE IF ~ModelAgrees(TableAfter(Batches(allA, allC, e.sent), e.now), e.post) THEN "drift:link_table_differs_from_model"
                ELSE "ok"
              hard == verdict # "ok" /\ verdict \notin {"drift:link_table_differs_from_model", "drift:link_batching_differs_from_model"}
          IN  /\ (IF verdict = "ok" THEN TRUE ELSE Reject(e, verdict))
              /\ p' = np /\ out' = no /\ failed' = (failed \/ hard)
              /\ tab' = TableOf(e.post)
              /\ la' = IF fwd THEN SubSeq(allA, nA + 1, Len(allA)) ELSE <<>>
              /\ lc' = IF fwd THEN SubSeq(allC, nC + 1, Len(allC)) ELSE <<>>
              /\ UNCHANGED <<kind, frs, rx>>

Done == PrintT(<<"DONE", Len(Events), TLCGet("stats").diameter, TLCGet(1)>>)
=============================================================================
