"""Encoding of Python values / frames into the integer-only JSON events TLC can read.

No JSON null, no floats, no integer >= 2^31 (TLC integers are 32-bit; the Json module
mangles larger ones).  Text is a list of character codes.
"""
import math

LIM = 2 ** 31 - 1


def text(s):
    return [ord(c) for c in s]


def untext(codes):
    return "".join(chr(c) for c in codes)


def frame_bytes(hexstr):
    return list(bytes.fromhex(hexstr))


def hexstr(b):
    return bytes(b).hex().upper()


def _isnp(v):
    return type(v).__module__ == "numpy"


def res(v, den=None):
    """encodes a result (see _res) and then uses a returned list / dict the way a caller may - in place: a result is the
    caller's own object, so what happens to it afterwards must not change what the library answers next time (a decoder that
    hands out a cached or module-level container is found by the next call on the same input, or by the repeated 17th call)"""
    r = _res(v, den)
    try:
        if type(v) is list:
            v.clear()
            v.append("<scribbled-by-caller>")
        elif type(v) is dict:
            v.clear()
    except Exception:  # noqa: BLE001
        pass
    return r


def _res(v, den=None):
    """Tagged encoding of a decoder result. `den`: denominator used to project floats
    (int, or a list/tuple of per-position denominators for tuple results)."""
    if _isnp(v):
        try:
            v = v.item()
        except Exception:
            return {"t": "o", "v": text(type(v).__name__)}
    if v is None:
        return {"t": "n"}
    if isinstance(v, bool):
        return {"t": "b", "v": 1 if v else 0}
    if isinstance(v, int):
        if abs(v) > LIM:
            return {"t": "big", "s": 1 if v > 0 else -1}
        return {"t": "i", "v": v}
    if den == "ang" and isinstance(v, (int, float)) and not isinstance(v, bool):
        x = float(v)
        if math.isnan(x) or math.isinf(x) or abs(x) > 1e6:
            return {"t": "nan"}
        n = round(x * 128)
        return {"t": "ang", "n": n, "x": 1 if abs(x * 128 - n) < 1e-6 else 0, "md": math.floor(x * 1000),
                "S": round(32768 * math.sin(math.radians(x))), "C": round(32768 * math.cos(math.radians(x)))}
    if isinstance(v, float):
        d = den if isinstance(den, int) else 1
        if math.isnan(v) or math.isinf(v):
            return {"t": "nan"}
        x = v * d
        n = round(x)
        if abs(n) > LIM:
            return {"t": "big", "s": 1 if n > 0 else -1}
        exact = abs(x - n) < 1e-6 * max(1.0, abs(x) * 1e-3)
        # integral floats with den 1 are reported as rationals too ("q"), TLC compares n*D = N*d
        return {"t": "q", "n": n, "d": d, "x": 1 if exact else 0}
    if isinstance(v, str):
        # "w": the same text as a JSON string (TLC compares labels as strings, indexes "v" for characters)
        w = v if len(v) <= 60 and all(32 <= ord(c) < 127 and c not in '"\\' for c in v) else "?"
        return {"t": "s", "v": text(v), "w": w}
    if isinstance(v, (tuple, list)):
        out = []
        for k, x in enumerate(v):
            dk = den[k] if isinstance(den, (list, tuple)) and k < len(den) else (den if isinstance(den, (int, str)) else None)
            out.append(res(x, dk))
        return {"t": "tup", "v": out}
    return {"t": "o", "v": text(type(v).__name__)}


def exc(e):
    if type(e) is RuntimeError:
        return {"t": "e"}
    return {"t": "x", "v": text(type(e).__name__)}


def call(fn, *a, den=None, **kw):
    try:
        return res(fn(*a, **kw), den)
    except Exception as e:  # noqa: BLE001 - totality is one of the things being observed
        return exc(e)


def pos(v, kind):
    """(lat, lon) -> lattice projections (see spec/TV_CPR.tla)."""
    if v is None:
        return {"t": "n"}
    if not (isinstance(v, (tuple, list)) and len(v) == 2):
        return res(v)
    lat, lon = float(v[0]), float(v[1])
    if not (abs(lat) < 1000 and abs(lon) < 1000):
        return {"t": "nan"}
    base = 360.0 if kind == "air" else 90.0
    latp = []
    for n in (60, 59):
        x = lat * n * 131072 / base
        k = round(x)
        latp.append([n, k, 1 if abs(x - k) < 1e-4 else 0])
    lonp = []
    for ni in range(1, 60):
        x = lon * ni * 131072 / base
        k = round(x)
        if abs(x - k) < 1e-4:
            lonp.append([ni, k])
    return {"t": "pos", "lat26": round(lat * 67108864 / 360), "lon26": round(lon * 67108864 / 360),
            "latp": latp, "lonp": lonp}


def lat_limbs(lat):
    """float latitude -> [sign, micro-degrees, 1e-15 degree] exactly (floor of |lat| * 1e15)."""
    from fractions import Fraction
    q = abs(Fraction(lat)) * 10 ** 15
    n = q.numerator // q.denominator
    return [-1 if lat < 0 else 1, n // 10 ** 9, n % 10 ** 9]
