SPECIFICATION FairSpec
CONSTANTS
  NB = 4
  Poison = {2}
  MaxExc = 3
INVARIANT TypeOK
INVARIANT PublishAfterProcessing
PROPERTY PublishMonotone
PROPERTY StuckAfterPoison
PROPERTY PoisonSticks
CHECK_DEADLOCK FALSE
