---------------------------- MODULE DecodeLoopMC ----------------------------
(* Role A wrapper of DecodeLoop: the temporal part (fairness, action properties, liveness).  Kept apart so that        *)
(* Trace_DecodeLoop can instantiate the action module with per-run NB / Poison.                                         *)
EXTENDS DecodeLoop

Spec == Init /\ [][Next]_vars
FairSpec == Spec /\ WF_vars(Decoder)


PublishMonotone == [][pubs' >= pubs]_vars
(* The hazard the code has when process_raw does raise: the batch list is kept, so nothing is ever published again and  *)
(* the batches before the raising one are processed again on every pass.                                                *)
StuckAfterPoison == [][HasPoison => pubs' = pubs]_vars
PoisonSticks == [][HasPoison => HasPoison']_vars

(* liveness, under weak fairness of the decoder process: every batch sent is eventually processed and then published *)
AllProcessed == \A b \in 1..NB : (sent >= b) ~> (\E i \in 1..Len(calls) : calls[i] = b)
AllPublished == (Poison = {}) => \A b \in 1..NB : (sent >= b) ~> (pubs >= b)
=============================================================================
