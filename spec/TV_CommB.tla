------------------------------ MODULE TV_CommB ------------------------------
(* Verdicts for the Comm-B field decoders (C11) and register inference (C12). *)
EXTENDS CommB, Res

QEq(r, q) == IF q = NAq THEN IsNone(r) ELSE NumEq(r, q[1], q[2])
F1(e, q, clause) == IF QEq(e.res, q) THEN "ok" ELSE clause

V_ovc10(e) == IF IsInt(e.res, Ovc10(e.frame)) THEN "ok" ELSE "ovc10_value"
V_cap17(e) ==
  LET w == Cap17(e.frame)  r == e.res IN
  IF r.t = "tup" /\ Len(r.v) = Len(w) /\ \A k \in 1..Len(w) : IsLabel(r.v[k], w[k]) THEN "ok" ELSE "cap17_list"
V_selalt40mcp(e) == F1(e, SelAlt40mcp(e.frame), "selalt40mcp_value")
V_selalt40fms(e) == F1(e, SelAlt40fms(e.frame), "selalt40fms_value")
V_p40baro(e) == F1(e, P40baro(e.frame), "p40baro_value")
V_wind44(e) ==
  IF IsTup(e.res, 2) /\ QEq(e.res.v[1], Wind44spd(e.frame)) /\ QEq(e.res.v[2], Wind44dir(e.frame)) THEN "ok" ELSE "wind44_value"
V_temp44(e) ==
  IF IsTup(e.res, 2) /\ QEq(e.res.v[1], Temp44a(e.frame)) /\ QEq(e.res.v[2], Temp44b(e.frame)) THEN "ok" ELSE "temp44_value"
V_p44(e) == F1(e, P44(e.frame), "p44_value")
V_hum44(e) == F1(e, Hum44(e.frame), "hum44_value")
V_turb44(e) == F1(e, Turb44(e.frame), "turb44_value")
V_turb45(e) == F1(e, Turb45(e.frame), "turb45_value")
V_ws45(e) == F1(e, Ws45(e.frame), "ws45_value")
V_mb45(e) == F1(e, Mb45(e.frame), "mb45_value")
V_ic45(e) == F1(e, Ic45(e.frame), "ic45_value")
V_wv45(e) == F1(e, Wv45(e.frame), "wv45_value")
V_temp45(e) == F1(e, Temp45(e.frame), "temp45_value")
V_p45(e) == F1(e, P45(e.frame), "p45_value")
V_rh45(e) == F1(e, Rh45(e.frame), "rh45_value")
V_roll50(e) == F1(e, Roll50(e.frame), "roll50_value")
V_trk50(e) == F1(e, Trk50(e.frame), "trk50_value")
V_gs50(e) == F1(e, Gs50(e.frame), "gs50_value")
V_rtrk50(e) == F1(e, Rtrk50(e.frame), "rtrk50_value")
V_tas50(e) == F1(e, Tas50(e.frame), "tas50_value")
V_hdg53(e) == F1(e, Hdg53(e.frame), "hdg53_value")
V_ias53(e) == F1(e, Ias53(e.frame), "ias53_value")
V_mach53(e) == F1(e, Mach53(e.frame), "mach53_value")
V_tas53(e) == F1(e, Tas53(e.frame), "tas53_value")
V_vr53(e) == F1(e, Vr53(e.frame), "vr53_value")
V_hdg60(e) == F1(e, Hdg60(e.frame), "hdg60_value")
V_ias60(e) == F1(e, Ias60(e.frame), "ias60_value")
V_mach60(e) == F1(e, Mach60(e.frame), "mach60_value")
V_vr60baro(e) == F1(e, Vr60baro(e.frame), "vr60baro_value")
V_vr60ins(e) == F1(e, Vr60ins(e.frame), "vr60ins_value")
\* the deprecated aliases
V_alt40mcp(e) == V_selalt40mcp(e)
V_alt40fms(e) == V_selalt40fms(e)

(* ---- register acceptance (is10 ... is60): the named rule that disagrees is reported ---- *)
B1(e, want, clause) == IF IsBool(e.res, want) THEN "ok" ELSE clause
V_is10(e) == B1(e, Is10(e.frame), "is10_rules")
V_is17(e) == B1(e, Is17(e.frame), "is17_rules")
V_is20(e) == B1(e, Is20(e.frame), "is20_rules")
V_is30(e) == B1(e, Is30(e.frame), "is30_rules")
V_is40(e) == B1(e, Is40(e.frame), "is40_rules")
V_is44(e) == B1(e, Is44(e.frame), "is44_rules")
V_is45(e) == B1(e, Is45(e.frame), "is45_rules")
V_is50(e) == B1(e, Is50(e.frame), "is50_rules")
V_is53(e) == B1(e, Is53(e.frame), "is53_rules")
V_is60(e) ==
  LET f == e.frame  aero == Is60Aero(f) IN
  IF ~Is60Format(f) THEN B1(e, FALSE, "is60_format_rules")
  ELSE IF aero = "pass" THEN B1(e, TRUE, "is60_rules")
  ELSE IF aero = "fail" THEN B1(e, FALSE, "is60_mach_ias_rule")
  ELSE IF e.res.t = "b" THEN "ok" ELSE "is60_shape"          \* aero rule not decidable from the table: either verdict

(* ---- infer ---- *)
InferWant(f, mrar, is60) ==
  LET c == Candidates(f, mrar, is60) IN IF Len(c) = 0 THEN "" ELSE Join(c)

V_infer(e) ==
  LET f == e.frame  r == e.res  mrar == e.mrar = 1 IN
  IF MBZero(f) THEN (IF IsLabel(r, "EMPTY") THEN "ok" ELSE "infer_empty")
  ELSE IF DF(f) = 17 /\ TCRegister(TypeCode(f)) # "none" THEN
       (IF IsLabel(r, TCRegister(TypeCode(f))) THEN "ok" ELSE "infer_df17_typecode_register")
  ELSE LET aero == IF Is60Format(f) THEN Is60Aero(f) ELSE "fail"
           okWith(b) == LET w == InferWant(f, mrar, b) IN IF w = "" THEN IsNone(r) ELSE IsLabel(r, w)
       IN  IF aero = "pass" THEN (IF okWith(TRUE) THEN "ok" ELSE "infer_candidate_set")
           ELSE IF aero = "fail" THEN (IF okWith(FALSE) THEN "ok" ELSE "infer_candidate_set")
           ELSE IF okWith(TRUE) \/ okWith(FALSE) THEN "ok" ELSE "infer_candidate_set"

(* ---- is50or60: the Mach/IAS pre-check at the reference altitude e.alt (ft); nearest-interpretation decisions at sea level ---- *)
\* e.spd = <<num, den>> reference speed (kt), e.trk = <<num, den>> reference track (deg)
AngSep512(a, b) == LET d == PosMod(a - b, 360 * 512) IN Min(d, 360 * 512 - d)     \* angles as num/512 degrees
V_is50or60(e) ==
  LET f == e.frame  r == e.res
      any == IsLabel(r, "BDS50") \/ IsLabel(r, "BDS60") \/ IsLabel(r, "BDS50,BDS60")
      aero == Is60Aero(f)
  IN
  IF ~Is50(f) \/ ~Is60Format(f) \/ aero = "fail" THEN (IF IsNone(r) THEN "ok" ELSE "is50or60_none_unless_both")
  ELSE IF aero = "open" THEN (IF IsNone(r) \/ any THEN "ok" ELSE "is50or60_shape")
  ELSE IF ~any THEN "is50or60_label"
  ELSE LET rule0 == IF Has(Mach60(f)) /\ Has(Ias60(f)) THEN MachIasRule(MBF(f, 25, 34), MBF(f, 14, 23), e.alt) ELSE "pass" IN
       IF rule0 = "fail" THEN (IF IsLabel(r, "BDS50") THEN "ok" ELSE "is50or60_mach_ias_at_reference_altitude")
       ELSE IF rule0 = "open" THEN "ok"
       ELSE IF ~Has(Hdg60(f)) \/ (~Has(Mach60(f)) /\ ~Has(Ias60(f))) \/ ~Has(Trk50(f)) \/ ~Has(Gs50(f))
            THEN (IF IsLabel(r, "BDS50,BDS60") THEN "ok" ELSE "is50or60_undecidable_must_name_both")
       ELSE IF e.alt # 0 THEN "ok"          \* nearest-interpretation decisions are modelled at sea level only
       ELSE LET sep == AngSep512(Trk50(f)[1], Hdg60(f)[1])
                ref50 == e.spd[2] = 1 /\ e.spd[1] = Gs50(f)[1] /\ e.trk[2] = 512 /\ e.trk[1] = Trk50(f)[1]
                ref60 == e.trk[2] = 512 /\ e.trk[1] = Hdg60(f)[1] /\ Has(Mach60(f)) /\ e.spd[2] = 1
                           /\ Abs(100 * e.spd[1] - CasTable[MBF(f, 25, 34) + 1][2]) <= 100
            IN  IF ref50 /\ sep >= 90 * 512 /\ Gs50(f)[1] >= 60 /\ (Has(Mach60(f)) => MBF(f, 25, 34) >= 25)
                      /\ (Has(Ias60(f)) => MBF(f, 14, 23) >= 60)
                THEN (IF IsLabel(r, "BDS50") THEN "ok" ELSE "is50or60_nearest_is_bds50")
                ELSE IF ref60 /\ sep >= 90 * 512 /\ Gs50(f)[1] >= 60 /\ MBF(f, 25, 34) >= 25
                THEN (IF IsLabel(r, "BDS60") THEN "ok" ELSE "is50or60_nearest_is_bds60")
                ELSE "ok"
=============================================================================
