"""C18 - uplink interrogation decoding.

A: MC_C18: address recovery by polynomial DIVISION inverts the AP field formed by polynomial MULTIPLICATION (two
   independent formulations) for unit / extreme / seeded addresses, both lengths, all field patterns; selective
   (RR, DI, IIS/SIS, RRS, LOS/LSS) and all-call (PR, IC, CL) builders round-trip through the field extractors.
B/C: the full field product UF x RR x DI x SD patterns and UF11 x PR x CL x IC, addresses x payloads x both lengths
   -> uf/bds/pr/ic/lockout/uplink_fields/uplink_icao -> TLC (TV_Uplink).
"""
from .. import gen
from . import c01

GEXP = list(range(12, 25)) + [10, 3, 0]


def mul_top24(a):
    """top 24 bits of A(x)*G(x) - used only to BUILD interrogations (inputs); the oracle is the TLA+ division"""
    r = 0
    for p in GEXP:
        r ^= a >> (24 - p)
    return r


def uplink_frame(data, addr):
    p = gen.parity(data) ^ mul_top24(addr)
    return list(data) + [p >> 16, (p >> 8) & 255, p & 255]


def vectors(ctx):
    rng = ctx.rng
    V = []
    fns = ["uplink.bds", "uplink.ic", "uplink.lockout", "uplink.uplink_fields"]
    k = 0
    for uf in range(32):
        n = 11 if uf >= 16 else 4
        sel = uf in (4, 5, 20, 21)
        for rr in range(32):
            for di in range(8):
                xs = range(0, 64, ctx.pick(3, 1)) if sel else [rng.randrange(64)]
                for x in xs:
                    for los in ((0, 1) if sel else (rng.randrange(2),)):
                        k += 1
                        data = [rng.randrange(256) for _ in range(n)]
                        data[0] = (uf << 3) | (data[0] & 7)
                        data = gen.set_bits(data, 9, 13, rr)
                        data = gen.set_bits(data, 14, 16, di)
                        if di == 3:
                            data = gen.set_bits(data, 17, 22, x)
                            data = gen.set_bits(data, 23, 23, los)
                            data = gen.set_bits(data, 24, 27, (x * 7 + rr) % 16)
                        else:
                            data = gen.set_bits(data, 17, 20, x % 16)
                            data = gen.set_bits(data, 21, 24, (x // 4) % 16)
                            data = gen.set_bits(data, 26, 26, los)
                        f = uplink_frame(data, rng.randrange(1 << 24))
                        V.append({"fn": fns[k % 4], "frame": f, "case": [uf, rr, di, x, los]})
                        if k % 16 == 0:
                            V.append({"fn": "uplink.uf", "frame": f, "case": [uf, rr, di, x, los]})
                            V.append({"fn": "uplink.pr", "frame": f, "case": [uf, rr, di, x, los]})
    for pr in range(16):
        for cl in range(8):
            for ic in range(16):
                data = [0] * 4
                data = gen.set_bits(data, 1, 5, 11)
                data = gen.set_bits(data, 6, 9, pr)
                data = gen.set_bits(data, 10, 13, ic)
                data = gen.set_bits(data, 14, 16, cl)
                data = gen.set_bits(data, 17, 32, rng.randrange(65536))
                f = uplink_frame(data, rng.randrange(1 << 24))
                for fn in ("uplink.pr", "uplink.ic", "uplink.uplink_fields", "uplink.lockout", "uplink.bds"):
                    V.append({"fn": fn, "frame": f, "case": [11, pr, cl, ic]})
    addrs = [0, 0xFFFFFF] + [1 << b for b in range(24)] + [rng.randrange(1 << 24) for _ in range(ctx.pick(600, 60000))]
    for a in addrs:
        for n in (4, 11):
            for pat in range(ctx.pick(2, 4)):
                data = [rng.randrange(256) for _ in range(n)] if pat else [0] * n
                if pat == 3:
                    data = [255] * n
                V.append({"fn": "uplink.uplink_icao", "frame": uplink_frame(data, a), "case": ["a", a, n, pat], "cs": rng.choice([0, 1])})
    # address sweep: the recovered address is a function of the AP field alone once the data are fixed - many addresses, one
    # short frame each (a defect confined to a small set of addresses, e.g. one table entry, is only met by breadth)
    for _ in range(ctx.pick(20000, 2000000)):
        a = rng.randrange(1 << 24)
        data = [rng.randrange(256) for _ in range(4)]
        V.append({"fn": "uplink.uplink_icao", "frame": uplink_frame(data, a), "case": ["sweep", a], "cs": 0})
    # ... and by structure: for a FIXED data part the AP field runs through every value of its low 16 bits and of its high 16
    # bits (any 24 bits are the AP of some address; the address is a linear bijective image of the AP field, so every 16-bit
    # half of every linear intermediate a table-driven implementation might index takes every value)
    for rep in range(ctx.pick(1, 4)):
        data = [rng.randrange(256) for _ in range(4)]
        for x in range(65536):
            V.append({"fn": "uplink.uplink_icao", "frame": data + [rng.randrange(256), x >> 8, x & 255], "case": ["aplo", rep, x], "cs": 0})
            if x % 2 == rep % 2:
                V.append({"fn": "uplink.uplink_icao", "frame": data + [x >> 8, x & 255, rng.randrange(256)], "case": ["aphi", rep, x], "cs": 0})
    for _ in range(ctx.pick(2000, 100000)):
        f = gen.rand_frame(rng)
        V.append({"fn": rng.choice(["uplink.uplink_icao", "uplink.uf", "uplink.uplink_fields", "uplink.ic"]), "frame": f,
                  "case": ["r", len(V)]})
    return V


def case_of(e):
    return (e["fn"],) + tuple(e["case"])


def run(ctx):
    ctx.rule = ("UF(32) x RR(32) x DI(8) x SD patterns (IIS/SIS 0..63 step 3 in quick, LOS/LSS both) with random other bits; UF11 x "
                "PR(16) x CL(8) x IC(16); 26 structured + seeded addresses x both lengths x payload patterns; random frames; "
                "distinct = (fn, field tuple)")
    ctx.model_check("MC_C18", cfg="MC_C18.cfg", what="C18 uplink AP and fields")
    ctx.check_events(vectors(ctx), case_of=case_of)


replay = c01.replay
