"""C08 - identity code and surveillance / all-call reply fields.

A: MC_C07.Squawk (all 4096 squawks x X bit round-trip) + MC_C08 (FS x DR x IIS x IDS round-trip through the spec's
   reply builder for DF4/5/20/21; DF11 CA/AA/overlay recovery for 128 + high-bit overlays).
B/C: all 8192 identity patterns x {13-bit string, DF5, DF21, TC28}; all 16384 field tuples; CA x overlay x
   addresses; every reply-specific decoder x DF 0..31 -> real code -> TLC validates (TV_Alt).
"""
from .. import gen
from . import c01


def vectors(ctx):
    rng = ctx.rng
    V = []
    for code in range(8192):
        V.append({"fn": "common.squawk", "code": code})
        for df in (5, 21):
            f = gen.set_bits(gen.rand_frame_df(rng, df), 20, 32, code)
            V.append({"fn": "common.idcode", "frame": f, "code": code, "cs": rng.choice([0, 1, 2 + code])})
            V.append({"fn": "surv.identity", "frame": f, "code": code})
        f = gen.rand_frame_df(rng, rng.choice([17, 18]))
        f = gen.set_bits(f, 33, 37, 28)
        f = gen.set_bits(f, 44, 56, code)
        V.append({"fn": "adsb.emergency_squawk", "frame": f, "code": code})
    # TC28: every subtype x emergency state against an all-zeros and an all-ones rest of the ME field, with the identity
    # codes a special case would key on (0, all ones, single pulses)
    for bg in (0, 1):
        for st in range(8):
            for es in range(8):
                for code in [0, 8191, 0o7700 & 8191] + [1 << b for b in range(13)]:
                    f = gen.rand_frame_df(rng, rng.choice([17, 18]))
                    f = gen.set_bits(f, 33, 88, ((1 << 56) - 1) * bg)
                    f = gen.set_bits(f, 33, 37, 28)
                    f = gen.set_bits(f, 38, 40, st)
                    f = gen.set_bits(f, 41, 43, es)
                    f = gen.set_bits(f, 44, 56, code)
                    V.append({"fn": "adsb.emergency_squawk", "frame": f, "code": code})
    n = 0
    for fs in range(8):
        for dr in range(32):
            for iis in range(16):
                for ids in range(4):
                    n += 1
                    df = (4, 5, 20, 21)[n % 4] if n % 3 else rng.choice([4, 5])
                    f = gen.rand_frame_df(rng, df)
                    f = gen.set_bits(f, 6, 8, fs)
                    f = gen.set_bits(f, 9, 13, dr)
                    f = gen.set_bits(f, 14, 17, iis)
                    f = gen.set_bits(f, 18, 19, ids)
                    code = (fs, dr, iis, ids)
                    pre = "surv." if df in (4, 5) else "common."
                    for fn in ("fs", "dr", "um"):
                        V.append({"fn": pre + fn, "frame": f, "code": list(code)})
                    if df in (4, 5) and n % 8 == 0:
                        for fn in ("fs", "dr", "um"):
                            V.append({"fn": "common." + fn, "frame": f, "code": list(code)})
    ovs = list(range(128)) + [1 << k for k in range(7, 24)] + [(1 << k) + rng.randrange(80) for k in range(7, 24)]
    for ca in range(8):
        for ov in ovs:
            for _ in range(ctx.pick(1, 4)):
                addr = rng.randrange(1 << 24)
                d = [(11 << 3) | ca, addr >> 16, (addr >> 8) & 255, addr & 255]
                f = gen.with_parity(d, ov)
                for fn in ("allcall.capability", "allcall.interrogator"):
                    V.append({"fn": fn, "frame": f, "code": [ca, ov]})
    # the same overlays with the address CHOSEN so that the transmitted PI field is a boundary value (000000: the parity of the
    # reply equals the interrogator code; FFFFFF) - the CRC is linear, the address is solved for (gen.solve_tail)
    for ov in ovs:
        for pi in (0, 0xFFFFFF):
            d = gen.solve_tail([(11 << 3) | rng.randrange(8), 0, 0, 0], pi ^ ov)
            if d is None:
                continue
            f = d + [pi >> 16, (pi >> 8) & 255, pi & 255]
            for fn in ("allcall.capability", "allcall.interrogator"):
                V.append({"fn": fn, "frame": f, "code": [d[0] & 7, ov]})
    # guards: every reply-specific decoder x every DF
    fns = ["common.idcode", "surv.identity", "adsb.emergency_squawk", "surv.fs", "surv.dr", "surv.um",
           "allcall.capability", "allcall.interrogator", "surv.altitude"]
    for df in range(32):
        for _ in range(ctx.pick(3, 30)):
            f = gen.rand_frame_df(rng, df)
            for fn in fns:
                V.append({"fn": fn, "frame": f, "code": -1})
    for tc in range(32):
        f = gen.set_bits(gen.rand_frame_df(rng, 17), 33, 37, tc)
        V.append({"fn": "adsb.emergency_squawk", "frame": f, "code": -1})
    for kind in ("df21",):
        for ts, msg, ic in gen.sample_frames(kind)[:ctx.pick(500, 100000)]:
            V.append({"fn": "common.idcode", "frame": list(bytes.fromhex(msg)), "code": -2})
    return V


def case_of(e):
    c = e["code"]
    return (e["fn"], tuple(c) if isinstance(c, list) else c, e["frame"][0] >> 3 if "frame" in e else -1)


def run(ctx):
    ctx.rule = ("all 8192 identity bit patterns through squawk/idcode/identity/emergency_squawk; all 16384 FS x DR x IIS x "
                "IDS tuples (DF4/5/20/21 cycled, other bits random); CA(8) x 162 parity overlays x random addresses; every "
                "reply-specific decoder x DF 0..31. distinct = (fn, field tuple|code, DF)")
    ctx.exhaustive = True
    ctx.model_check("MC_C07", cfg="MC_C07.cfg", what="squawk codec")
    ctx.model_check("MC_C08", cfg="MC_C08.cfg", what="C08 reply fields")
    ctx.check_events(vectors(ctx), case_of=case_of)


replay = c01.replay
