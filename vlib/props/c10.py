"""C10 - aircraft identification: callsign and category round-trip.

A: MC_ADSB.Ident: every 6-bit code at every character position, layout agreement, independence.
B/C: 8 x 64 single-position vectors + all-same strings + seeded strings x TC 1-4 x category 0-7 x DF17/18, and the
   same strings in BDS 2,0 under DF20/21 -> callsign/category/cs20 -> TLC (TV_ADSB.V_callsign ...).
"""
from .. import gen
from . import c01

LEGAL = list(range(1, 27)) + [32] + list(range(48, 58))


def es_frame(rng, tc, cat, codes, df=17):
    f = gen.rand_frame_df(rng, df)
    f = gen.set_bits(f, 33, 37, tc)
    f = gen.set_bits(f, 38, 40, cat)
    for k, c in enumerate(codes):
        f = gen.set_bits(f, 41 + 6 * k, 46 + 6 * k, c)
    return gen.selfsim_tail(rng, f)


def bds20_frame(rng, codes, df=20):
    f = gen.rand_frame_df(rng, df)
    f = gen.set_bits(f, 33, 40, 0x20)
    for k, c in enumerate(codes):
        f = gen.set_bits(f, 41 + 6 * k, 46 + 6 * k, c)
    return gen.selfsim_tail(rng, f)


def vectors(ctx):
    rng = ctx.rng
    V = []

    def add(codes, tag):
        tc = rng.randint(1, 4)
        cat = rng.randrange(8)
        f = es_frame(rng, tc, cat, codes, rng.choice([17, 17, 18]))
        V.append({"fn": "adsb.callsign", "frame": f, "codes": list(codes), "tag": tag, "cs": rng.choice([0, 1])})
        V.append({"fn": "adsb.category", "frame": f, "codes": [tc, cat], "tag": tag})
        g = bds20_frame(rng, codes, rng.choice([20, 21]))
        V.append({"fn": "commb.cs20", "frame": g, "codes": list(codes), "tag": tag})

    for bg in (1, 32, 48, 26, 57):
        for pos in range(8):
            for code in range(64):
                cs = [bg] * 8
                cs[pos] = code
                add(cs, "pos")
    for c in range(64):
        add([c] * 8, "same")
    for tc in range(1, 5):
        for cat in range(8):
            for df in (17, 18):
                codes = [rng.choice(LEGAL) for _ in range(8)]
                f = es_frame(rng, tc, cat, codes, df)
                V.append({"fn": "adsb.callsign", "frame": f, "codes": codes, "tag": "tc"})
                V.append({"fn": "adsb.category", "frame": f, "codes": [tc, cat], "tag": "tc"})
    for _ in range(ctx.pick(3000, 150000)):
        add([rng.choice(LEGAL) for _ in range(8)], "rand")
    for _ in range(ctx.pick(500, 20000)):
        add([rng.randrange(64) for _ in range(8)], "anycode")
    # guard cells
    for tc in range(32):
        for _ in range(ctx.pick(3, 20)):
            f = gen.set_bits(gen.rand_frame_df(rng, rng.choice([17, 18])), 33, 37, tc)
            V.append({"fn": "adsb.callsign", "frame": f, "codes": [-1, tc], "tag": "guard"})
            V.append({"fn": "adsb.category", "frame": f, "codes": [-1, tc], "tag": "guard"})
    for df in range(32):
        f = gen.rand_frame_df(rng, df)
        V.append({"fn": "adsb.callsign", "frame": f, "codes": [-2, df], "tag": "guard"})
    for ts, msg, ic in gen.sample_frames("adsb")[:ctx.pick(400, 100000)]:
        f = list(bytes.fromhex(msg))
        V.append({"fn": "adsb.callsign", "frame": f, "codes": [-3, f[4] >> 3], "tag": "sample"})
    return V


def case_of(e):
    return (e["fn"], tuple(e["codes"]), e["frame"][0] >> 3)


def run(ctx):
    ctx.defer_guards = True
    ctx.rule = ("every 6-bit code at every position on 5 backgrounds, all-same strings, seeded legal and arbitrary strings, "
                "TC 1-4 x category x DF17/18 and BDS 2,0 under DF20/21, guard cells; distinct = (fn, character codes, DF)")
    ctx.model_check("MC_ADSB", cfg="MC_ADSB.cfg", what="ADS-B ME layouts")
    ctx.check_events(vectors(ctx), case_of=case_of)


replay = c01.replay
