"""Registry: event function name -> how to call the real library for a vector."""
import random

from . import enc

CALLS = {}


def reg(name):
    def deco(f):
        CALLS[name] = f
        return f
    return deco


def hx(v, key="frame"):
    """hex text of the frame in vector v. v["cs"]: 0 upper, 1 lower, k>=2 mixed (seeded by k)."""
    if "text" in v and key == "frame":
        return enc.untext(v["text"])
    s = bytes(v[key]).hex()
    cs = v.get("cs", 0)
    if cs == 0:
        return s.upper()
    if cs == 1:
        return s
    r = random.Random(cs)
    return "".join(c.upper() if r.random() < 0.5 else c for c in s)


class CallTimeout(BaseException):
    """a library call did not come back within VERIF_CALL_TIMEOUT seconds (default 120; a normal call takes milliseconds to a
    few seconds): recorded like any other exception type escaping, i.e. the call is not total.  A BaseException, re-raised every
    5 s, so that neither `except Exception` nor a bare `except:` inside the library can swallow it for good"""


_TIMEOUTS = {"n": 0}


def _on_alarm(signum, frame):
    raise CallTimeout()


def apply(pm, v):
    import os
    import signal
    f = CALLS.get(v["fn"])
    if f is None:
        raise KeyError("no call registered for fn=%r" % v["fn"])
    if _TIMEOUTS["n"] >= 3:
        # three calls in this worker already ran into the limit: the rest is not attempted (the verdict is settled)
        return {"t": "x", "v": enc.text("CallTimeout")}
    fr = v.get("frame")
    if isinstance(fr, list) and len(fr) in (7, 14) and v.get("id", 0) % 2 and not v["fn"].startswith(("common.", "crc", "icao")):
        # every other decoder call is preceded by what a user does first with a frame - df() and icao() - so that module-level
        # state those leave behind (caches keyed on part of the input) is in place when the decoder under test runs
        try:
            t = bytes(fr).hex().upper()
            pm.df(t)
            pm.icao(t)
        except Exception:  # noqa: BLE001 - their own correctness is judged elsewhere
            pass
    if isinstance(fr, list) and len(fr) == 14 and v.get("id", 0) % 4 == 2 and v["fn"].startswith(("adsb.", "commb.", "surv.", "allcall.")):
        # every fourth decoder call is preceded by the same decoder on a twin frame with the same payload under another
        # downlink format (what a mis-routed message looks like; mostly a RuntimeError) - state left behind by a rejected
        # call must not leak into the next one
        try:
            twin = [((20 if (fr[0] >> 3) in (17, 18) else 17) << 3) | (fr[0] & 7)] + list(fr[1:])
            CALLS[v["fn"]](pm, dict(v, frame=twin))
        except Exception:  # noqa: BLE001
            pass
    limit = float(os.environ.get("VERIF_CALL_TIMEOUT", "120"))
    old = signal.signal(signal.SIGALRM, _on_alarm)
    signal.setitimer(signal.ITIMER_REAL, limit, 5.0)        # keeps firing: a bare `except:` in the library may swallow the first
    try:
        return f(pm, v)
    except CallTimeout:
        _TIMEOUTS["n"] += 1
        return {"t": "x", "v": enc.text("CallTimeout")}
    except Exception as e:  # noqa: BLE001
        return enc.exc(e)
    finally:
        signal.setitimer(signal.ITIMER_REAL, 0)
        signal.signal(signal.SIGALRM, old)


# ---- C01 ----
@reg("crc")
def _crc(pm, v):
    return enc.res(pm.common.crc(hx(v), bool(v["enc"])))


@reg("crc.seq")
def _crc_seq(pm, v):
    """several crc() calls on related frames, one after the other in one process: the result of each may depend on its own
    argument only (a cache or a module-level shortcut keyed on less than the whole argument shows up here)"""
    out = []
    for c in v["calls"]:
        out.append(enc.call(pm.common.crc, hx(c), bool(c["enc"])))
    return {"t": "seq", "v": out}


@reg("crc_legacy")
def _crcl(pm, v):
    from pyModeS import py_common
    return enc.res(py_common.crc_legacy(hx(v), bool(v["enc"])))


# ---- C02 ----
@reg("icao")
def _icao(pm, v):
    return enc.res(pm.icao(hx(v)))


@reg("adsb.icao")
def _aicao(pm, v):
    return enc.res(pm.adsb.icao(hx(v)))


@reg("allcall.icao")
def _acicao(pm, v):
    return enc.res(pm.allcall.icao(hx(v)))


# ---- C07 / C08 ----
def _bits13(v):
    return format(v["code"], "013b")


def _twin(f, *a):
    """the altitude and identity decoders work on the same 13-bit codes: every other call of one is preceded by its twin on the
    same code (module-level state shared between the two would show)"""
    try:
        f(*a)
    except Exception:  # noqa: BLE001
        pass


def _as_df(frame, df):
    return [(df << 3) | (frame[0] & 7)] + list(frame[1:])


@reg("common.altitude")
def _c_alt(pm, v):
    if v.get("id", 0) % 2:
        _twin(pm.common.squawk, _bits13(v))
    return enc.res(pm.common.altitude(_bits13(v)))


@reg("common.altcode")
def _c_altcode(pm, v):
    if v.get("id", 0) % 2 and "frame" in v:
        fr = v["frame"]
        _twin(pm.common.idcode, bytes(_as_df(fr, 5 if len(fr) == 7 else 21)).hex().upper())
    return enc.res(pm.common.altcode(hx(v)))


@reg("surv.altitude")
def _s_alt(pm, v):
    return enc.res(pm.surv.altitude(hx(v)))


@reg("adsb.altitude")
def _a_alt(pm, v):
    return enc.res(pm.adsb.altitude(hx(v)), 25000)


@reg("adsb.altitude05")
def _a_alt05(pm, v):
    return enc.res(pm.adsb.altitude05(hx(v)), 25000)


@reg("common.squawk")
def _c_sq(pm, v):
    if v.get("id", 0) % 2:
        _twin(pm.common.altitude, _bits13(v))
    return enc.res(pm.common.squawk(_bits13(v)))


@reg("common.idcode")
def _c_id(pm, v):
    if v.get("id", 0) % 2 and "frame" in v:
        fr = v["frame"]
        _twin(pm.common.altcode, bytes(_as_df(fr, 4 if len(fr) == 7 else 20)).hex().upper())
    return enc.res(pm.common.idcode(hx(v)))


@reg("surv.identity")
def _s_id(pm, v):
    return enc.res(pm.surv.identity(hx(v)))


@reg("adsb.emergency_squawk")
def _a_esq(pm, v):
    return enc.res(pm.adsb.emergency_squawk(hx(v)))


for _n in ("fs", "dr", "um"):
    def _mk(n):
        def f(pm, v):
            return enc.res(getattr(pm.surv, n)(hx(v)))

        def g(pm, v):
            from pyModeS import py_common
            return enc.res(getattr(py_common, n)(hx(v)))
        return f, g
    _f, _g = _mk(_n)
    CALLS["surv." + _n] = _f
    CALLS["common." + _n] = _g


@reg("allcall.capability")
def _ac_cap(pm, v):
    return enc.res(pm.allcall.capability(hx(v)))


@reg("allcall.interrogator")
def _ac_int(pm, v):
    return enc.res(pm.allcall.interrogator(hx(v)))


# ---- ADS-B decoders (C09, C10, C13, C14) ----
_ADSB_DEN = {
    "velocity": [8, "ang", 1], "airborne_velocity": [8, "ang", 1], "surface_velocity": [8, "ang", 1],
    "speed_heading": [8, "ang"], "selected_heading": "ang", "baro_pressure_setting": 5,
    "nuc_p": [1, 2, 1, 1], "nuc_v": [1, 100, 100], "nac_v": [1, 100, 100], "nac_p": [1, 1, 1],
    "nic_v1": [1, 2, 2], "nic_v2": [1, 2], "sil": [10 ** 7, 10 ** 7],
    "altitude": 25000, "altitude05": 25000,
}
_ADSB_PLAIN = ["callsign", "category", "altitude_diff", "emergency_state", "is_emergency", "selected_altitude",
               "target_altitude", "vertical_mode", "horizontal_mode", "selected_heading", "target_angle",
               "baro_pressure_setting", "autopilot", "vnav_mode", "altitude_hold_mode", "approach_mode", "lnav_mode",
               "tcas_operational", "tcas_ra", "emergency_status", "version", "nic_s", "nic_a_c", "nic_b", "nac_p",
               "nac_v", "nuc_v", "nuc_p", "speed_heading", "oe_flag", "typecode", "df"]


def _mk_adsb(name):
    def f(pm, v):
        return enc.res(getattr(pm.adsb, name)(hx(v)), _ADSB_DEN.get(name))
    return f


for _n in _ADSB_PLAIN:
    CALLS.setdefault("adsb." + _n, _mk_adsb(_n))


def _mk_vel(name):
    def f(pm, v):
        return enc.res(getattr(pm.adsb, name)(hx(v), source=bool(v.get("src", 0))), _ADSB_DEN[name])
    return f


for _n in ("velocity", "airborne_velocity", "surface_velocity"):
    CALLS["adsb." + _n] = _mk_vel(_n)


@reg("adsb.sil")
def _sil(pm, v):
    ver = v.get("version", -1)
    return enc.res(pm.adsb.sil(hx(v), None if ver == -1 else ver), _ADSB_DEN["sil"])


@reg("adsb.nic_v1")
def _nic1(pm, v):
    return enc.res(pm.adsb.nic_v1(hx(v), v.get("nics", 0)), _ADSB_DEN["nic_v1"])


@reg("adsb.nic_v2")
def _nic2(pm, v):
    return enc.res(pm.adsb.nic_v2(hx(v), v.get("nica", 0), v.get("nicbc", 0)), _ADSB_DEN["nic_v2"])


@reg("commb.cs20")
def _cs20(pm, v):
    return enc.res(pm.commb.cs20(hx(v)))


# ---- CPR (C03-C06) ----
def _ts(v):
    """time stamps as passed to the library.  t0/t1 are integers for TLC (only their order matters); `tq` = 1 means they
    count quarter seconds (so that both stamps can fall into the same whole second), `dt` = 1 passes datetimes."""
    t0, t1 = v["t0"], v["t1"]
    q = 4.0 if v.get("tq") else 1.0
    if v.get("dt") == 2:
        # timezone-aware datetimes from two receivers in different zones: the later instant has the earlier wall-clock reading
        import datetime
        base = datetime.datetime(2020, 1, 1, 12, tzinfo=datetime.timezone.utc)
        z0 = datetime.timezone(datetime.timedelta(hours=5 if t0 < t1 else -7))
        z1 = datetime.timezone(datetime.timedelta(hours=-7 if t0 < t1 else 5))
        return ((base + datetime.timedelta(seconds=t0 / q)).astimezone(z0), (base + datetime.timedelta(seconds=t1 / q)).astimezone(z1))
    if v.get("dt") == 3:
        import numpy as np
        return (np.float64(t0 / q), np.float64(t1 / q)) if (v.get("tq") or (t0 + t1) % 2) else (np.int64(t0), np.int64(t1))
    if v.get("dt"):
        import datetime
        base = datetime.datetime(2020, 1, 1)
        return base + datetime.timedelta(seconds=t0 / q), base + datetime.timedelta(seconds=t1 / q)
    if v.get("tq"):
        return t0 / q, t1 / q
    return t0, t1


def _ref(v):
    return 360.0 * v["r"] / 1048576, 360.0 * v["s"] / 1048576


@reg("adsb.position")
def _pos(pm, v):
    t0, t1 = _ts(v)
    m0, m1 = hx(v, "f0"), hx(v, "f1")
    if v.get("hasref"):
        la, lo = _ref(v)
        return enc.pos(pm.adsb.position(m0, m1, t0, t1, la, lo), v["kind"])
    return enc.pos(pm.adsb.position(m0, m1, t0, t1), v["kind"])


@reg("adsb.surface_position.edge")
def _spos_edge(pm, v):
    """totality next to the decision boundaries of the float arguments: the receiver longitude is put within a few ulps of the
    points where the choice among the four longitude candidates flips (45 / 135 degrees from the solution actually returned)"""
    import math
    m0, m1 = hx(v, "f0"), hx(v, "f1")
    la0, lo0 = _ref(v)
    try:
        base = pm.adsb.position(m0, m1, v["t0"], v["t1"], la0, lo0)
    except RuntimeError:
        return {"t": "edge", "n": 0, "bad": 0}
    if base is None:
        return {"t": "edge", "n": 0, "bad": 0}
    n = bad = 0
    first = ""
    for d in (-135.0, -45.0, 45.0, 135.0, -180.0, 180.0):
        x = base[1] + d
        for u in range(-4, 5):
            y = x
            for _ in range(abs(u)):
                y = math.nextafter(y, math.inf if u > 0 else -math.inf)
            for ref in (y, y - 360.0, y + 360.0):
                if not -360.0 <= ref <= 360.0:
                    continue
                n += 1
                try:
                    r = pm.adsb.position(m0, m1, v["t0"], v["t1"], base[0], ref)
                    if not (r is None or (isinstance(r, tuple) and len(r) == 2)):
                        bad += 1
                        first = first or "shape"
                except RuntimeError:
                    pass
                except Exception as e:  # noqa: BLE001
                    bad += 1
                    first = first or type(e).__name__
    return {"t": "edge", "n": n, "bad": bad, "exc": enc.text(first)}


@reg("adsb.airborne_position")
def _apos(pm, v):
    t0, t1 = _ts(v)
    return enc.pos(pm.adsb.airborne_position(hx(v, "f0"), hx(v, "f1"), t0, t1), "air")


@reg("adsb.surface_position")
def _spos(pm, v):
    t0, t1 = _ts(v)
    la, lo = _ref(v)
    return enc.pos(pm.adsb.surface_position(hx(v, "f0"), hx(v, "f1"), t0, t1, la, lo), "surf")


@reg("adsb.position_with_ref")
def _pwr(pm, v):
    la, lo = _ref(v)
    return enc.pos(pm.adsb.position_with_ref(hx(v), la, lo), v["kind"])


@reg("adsb.position_with_ref.frac")
def _pwrf(pm, v):
    # a reference that is not on the 2^20 grid: the fractions rn / rd and sn / sd of a degree as the nearest floats
    la, lo = v["rn"] / v["rd"], v["sn"] / v["sd"]
    if v.get("via", 0) == 0:
        return enc.pos(pm.adsb.position_with_ref(hx(v), la, lo), v["kind"])
    f = pm.adsb.airborne_position_with_ref if v["kind"] == "air" else pm.adsb.surface_position_with_ref
    return enc.pos(f(hx(v), la, lo), v["kind"])


@reg("adsb.airborne_position_with_ref")
def _apwr(pm, v):
    la, lo = _ref(v)
    return enc.pos(pm.adsb.airborne_position_with_ref(hx(v), la, lo), "air")


@reg("adsb.surface_position_with_ref")
def _spwr(pm, v):
    la, lo = _ref(v)
    return enc.pos(pm.adsb.surface_position_with_ref(hx(v), la, lo), "surf")


@reg("common.cprNL")
def _nl(pm, v):
    x = v["x"]
    if v.get("id", 0) % 2:
        # the same value first in other numeric types (what equal-comparing keys of a cache would conflate); their own
        # results are not judged - single precision is not the documented argument type
        import numpy as np
        for t in (np.float32, np.float64):
            try:
                if float(t(x)) == x:
                    pm.common.cprNL(t(x))
            except Exception:  # noqa: BLE001
                pass
    return enc.res(pm.common.cprNL(x))


# ---- Comm-B (C11, C12) ----
COMMB_DEN = {
    "selalt40mcp": 1, "selalt40fms": 1, "alt40mcp": 1, "alt40fms": 1, "p40baro": 10, "wind44": [1, 64], "temp44": [8, 8],
    "p44": 1, "hum44": 16, "turb44": 1, "turb45": 1, "ws45": 1, "mb45": 1, "ic45": 1, "wv45": 1, "temp45": 4, "p45": 1,
    "rh45": 1, "roll50": 256, "trk50": 512, "gs50": 1, "rtrk50": 32, "tas50": 1, "hdg53": 512, "ias53": 1, "mach53": 125,
    "tas53": 2, "vr53": 1, "hdg60": 512, "ias60": 1, "mach60": 250, "vr60baro": 1, "vr60ins": 1, "ovc10": 1, "cap17": None,
    "is10": None, "is17": None, "is20": None, "is30": None, "is40": None, "is44": None, "is45": None, "is50": None,
    "is53": None, "is60": None,
}


def _commb_fn(pm, name):
    if name.endswith("53"):
        from pyModeS.decoder.bds import bds53
        return getattr(bds53, name)
    return getattr(pm.commb, name)


def _mk_commb(name):
    def f(pm, v):
        import warnings
        with warnings.catch_warnings():
            warnings.simplefilter("ignore")
            return enc.res(_commb_fn(pm, name)(hx(v)), COMMB_DEN[name])
    return f


for _n in COMMB_DEN:
    CALLS["commb." + _n] = _mk_commb(_n)


@reg("bds.infer")
def _infer(pm, v):
    return enc.res(pm.bds.infer(hx(v), mrar=bool(v.get("mrar", 0))))


@reg("bds.is50or60")
def _is5060(pm, v):
    spd = v["spd"][0] / v["spd"][1]
    trk = v["trk"][0] / v["trk"][1]
    return enc.res(pm.bds.is50or60(hx(v), spd, trk, v.get("alt", 0)))


# ---- common helpers (C14, C15) and tell ----
def _bitstr(v):
    return "".join(str(b) for b in v["bits"])


@reg("common.df")
def _cdf(pm, v):
    return enc.res(pm.common.df(hx(v)))


@reg("common.typecode")
def _ctc(pm, v):
    return enc.res(pm.common.typecode(hx(v)))


@reg("common.hex2bin")
def _h2b(pm, v):
    return enc.res(pm.common.hex2bin(hx(v)))


@reg("common.data")
def _cdata(pm, v):
    return enc.res(pm.common.data(enc.untext(v["text"])))


@reg("common.allzeros")
def _caz(pm, v):
    return enc.res(pm.common.allzeros(hx(v)))


@reg("common.bin2int")
def _b2i(pm, v):
    return enc.res(pm.common.bin2int(_bitstr(v)))


@reg("common.bin2hex")
def _b2h(pm, v):
    return enc.res(pm.common.bin2hex(_bitstr(v)))


@reg("common.hex2int")
def _h2i(pm, v):
    return enc.res(pm.common.hex2int(enc.untext(v["text"])))


@reg("common.floor")
def _cfloor(pm, v):
    return enc.res(pm.common.floor(v["num"] / v["den"]))


@reg("common.gray2alt")
def _g2a(pm, v):
    return enc.res(pm.common.gray2alt(format(v["code"], "011b")))


@reg("common.wrongstatus")
def _cws(pm, v):
    # the 56 payload bits are prepared here, not with the library's own hex2bin / data (a defect there is theirs to show)
    d = "".join(format(b, "08b") for b in v["frame"][4:11])
    return enc.res(pm.common.wrongstatus(d, v["sb"], v["msb"], v["lsb"]))


@reg("common.is_icao_assigned")
def _cia(pm, v):
    return enc.res(pm.common.is_icao_assigned("%06X" % v["addr"] if v.get("cs", 0) == 0 else "%06x" % v["addr"]))


@reg("common.icao")
def _cicao(pm, v):
    return enc.res(pm.common.icao(hx(v)))


@reg("common.crc")
def _ccrc(pm, v):
    return enc.res(pm.common.crc(hx(v), bool(v["enc"])))


@reg("tell")
def _tell(pm, v):
    import contextlib
    import io
    buf = io.StringIO()
    with contextlib.redirect_stdout(buf):
        r = pm.tell(hx(v))
    return enc.res(r)


# ---- C16: stateful runs of the TCP client ----
def _wire(kind, frs):
    w = []
    for fr in frs:
        if kind == "beast":
            w += [0x1A, fr["ty"]]
            for b in fr["body"]:
                w += [0x1A, 0x1A] if b == 0x1A else [b]
        elif kind == "raw":
            w += [42] + fr["text"] + [59] + fr["sep"]
        else:
            w += [36] + fr["pl"] + fr["tail"]
    return w


@reg("stream.run")
def _stream_run(pm, v):
    from pyModeS.extra.tcpclient import TcpClient
    kind = v["kind"]
    c = TcpClient("localhost", 0, kind)
    read = {"beast": c.read_beast_buffer, "raw": c.read_raw_buffer, "skysense": c.read_skysense_buffer}[kind]
    if v.get("reader") == "rssi":           # the piaware variant of the Beast reader: same framing, [msg, dBFS, ts] triples
        read = c.read_beast_buffer_rssi_piaware
    wire = _wire(kind, v["frs"])
    cuts = [0] + list(v["cuts"]) + [len(wire)]
    steps = []
    if v.get("reader") == "loop":
        # the real receive loop TcpClient.run() on a scripted socket: one piece per recv, and `idle[k]` receive time-outs
        # (zmq.error.Again, what an idle link produces every 10 s) before piece k and after the last one.  Every recv - piece or
        # time-out - is one step; what handle_messages() is given until the next recv belongs to it.
        import zmq
        pieces = [(a, b) for a, b in zip(cuts, cuts[1:]) if b > a]
        idle = list(v.get("idle", []))
        script = []
        for k, pc in enumerate(pieces):
            script += [None] * (idle[k] if k < len(idle) else 0) + [pc]
        script += [None] * (idle[len(pieces)] if len(pieces) < len(idle) else 0)

        class Stop(BaseException):
            pass

        class Sock:
            i = 0

            def recv(self, n):
                if self.i >= len(script):
                    raise Stop()
                pc = script[self.i]
                self.i += 1
                if pc is None:
                    steps.append({"n": 0, "out": [], "buflen": len(c.buffer)})
                    raise zmq.error.Again()
                steps.append({"n": pc[1] - pc[0], "out": [], "buflen": 0})
                return bytes(wire[pc[0]:pc[1]])

            def close(self):
                pass

        def handle(msgs):
            if not steps:
                steps.append({"n": 0, "out": [], "buflen": 0})
            steps[-1]["out"] += [enc.text(m[0]) for m in (msgs or [])]

        c.handle_messages = handle
        c.connect = lambda: setattr(c, "socket", Sock())
        try:
            c.run()
        except Stop:
            pass
        return {"t": "steps", "v": steps}
    for a, b in zip(cuts, cuts[1:]):
        if b <= a:
            continue
        c.buffer.extend(wire[a:b])
        msgs = read()
        steps.append({"n": b - a, "out": [enc.text(m[0]) for m in (msgs or [])], "buflen": len(c.buffer)})
    return {"t": "steps", "v": steps}


@reg("net.run")
def _net_run(pm, v):
    from pyModeS.streamer.source import NetSource

    class Flag:
        value = False

    class Pipe:
        def __init__(self):
            self.sent = []

        def send(self, d):
            self.sent.append(d)

    if v.get("src") == "rtl":
        # the RTL-SDR source has its own copy of the forwarding code; made without hardware
        import sys
        import types
        if "rtlsdr" not in sys.modules:
            sys.modules["rtlsdr"] = types.ModuleType("rtlsdr")
        from pyModeS.streamer.source import RtlSdrSource
        s = object.__new__(RtlSdrSource)
        s.reset_local_buffer()
    else:
        s = NetSource("localhost", 0, "beast")
    s.stop_flag = Flag()
    s.raw_pipe_in = Pipe()
    import random as _r
    rr = _r.Random(len(v["batches"]) * 7919 + sum(len(b) for b in v["batches"]))
    for batch in v["batches"]:
        # time stamps as the readers deliver them need not increase (the Skysense reader takes them from the frame)
        # hex letter case as the raw (AVR) reader hands it over: whatever the sender used
        lower = v.get("lower", 0)
        s.handle_messages([[bytes(m).hex().upper() if lower == 0 else bytes(m).hex() if lower == 1 else
                            "".join(c.upper() if rr.random() < 0.5 else c for c in bytes(m).hex()),
                            rr.choice([1.0 + k, 86399.5 - k, rr.random() * 100])] for k, m in enumerate(batch)])
    adsb, commb, nts = [], [], 0
    for d in s.raw_pipe_in.sent:
        adsb += d["adsb_msg"]
        commb += d["commb_msg"]
        nts += len(d["adsb_ts"]) + len(d["commb_ts"])
    adsb += s.local_buffer_adsb_msg
    commb += s.local_buffer_commb_msg
    nts += len(s.local_buffer_adsb_ts) + len(s.local_buffer_commb_ts)
    return {"t": "net", "adsb": [list(bytes.fromhex(m)) for m in adsb], "commb": [list(bytes.fromhex(m)) for m in commb],
            "batches_sent": len(s.raw_pipe_in.sent), "ts_ok": 1 if nts == len(adsb) + len(commb) else 0}


# ---- C18: uplink ----
def _mk_uplink(name):
    def f(pm, v):
        from pyModeS.decoder import uplink
        r = getattr(uplink, name)(hx(v))
        if name == "uplink_fields":
            if not isinstance(r, dict):
                return enc.res(r)
            return enc.res(tuple(r.get(k, "<missing>") for k in ("DI", "IC", "LOS", "PR", "RR", "RRS", "BDS")))
        return enc.res(r)
    return f


for _n in ("uplink_icao", "uf", "bds", "pr", "ic", "lockout", "uplink_fields"):
    CALLS["uplink." + _n] = _mk_uplink(_n)


# ---- C17: stateful runs of the live table ----
_CB_KEYS = ("tas", "roll", "rtrk", "trk50", "gs50", "ias", "hdg", "mach", "roc60baro", "roc60ins", "hum44", "p44", "temp44",
            "turb44", "wind44", "t50", "t60")


def _slot(ac, oe):
    if oe in ac and ("t%d" % oe) in ac:
        f = bytes.fromhex(ac[oe])
        from . import gen
        fl = list(f)
        return {"has": 1, "t": round(ac["t%d" % oe] * 2), "yz": gen.get_bits(fl, 55, 71), "xz": gen.get_bits(fl, 72, 88),
                "tc": fl[4] >> 3}
    return {"has": 0, "t": 0, "yz": 0, "xz": 0, "tc": 0}


def _project(acs):
    out = []
    seen = {}
    dup = 0
    for key, ac in acs.items():
        try:
            addr = int(key, 16)
        except (TypeError, ValueError):
            addr = -1
        if addr in seen:
            dup = 1
        seen[addr] = 1
        hp = 1 if ("tpos" in ac and ac.get("lat") is not None and ac.get("lon") is not None) else 0
        latlon = (ac["lat"], ac["lon"]) if hp else (0.0, 0.0)
        e = {"addr": addr, "live": ac["live"] if isinstance(ac.get("live"), int) else -1, "hp": hp,
             "tpos": round(ac["tpos"] * 2) if hp else 0,
             "posA": enc.pos(latlon, "air"), "posS": enc.pos(latlon, "surf"),
             "r": round(latlon[0] * 1048576 / 360), "s": round(latlon[1] * 1048576 / 360),
             "e": _slot(ac, 0), "o": _slot(ac, 1),
             "cb": 1 if any(ac.get(k) is not None for k in _CB_KEYS) else 0,
             "c": {"call": enc.res(ac.get("call")), "gs": enc.res(ac.get("gs"), 8), "trk": enc.res(ac.get("trk"), "ang"),
                   "roc": enc.res(ac.get("roc")), "alt": enc.res(ac.get("alt"), 1), "tas": enc.res(ac.get("tas"), 1),
                   "roll": enc.res(ac.get("roll"), 256), "rtrk": enc.res(ac.get("rtrk"), 32), "trk50": enc.res(ac.get("trk50"), 512),
                   "gs50": enc.res(ac.get("gs50"), 1), "ias": enc.res(ac.get("ias"), 1), "hdg": enc.res(ac.get("hdg"), 512),
                   "mach": enc.res(ac.get("mach"), 250), "rb": enc.res(ac.get("roc60baro"), 1), "ri": enc.res(ac.get("roc60ins"), 1),
                   "ver": enc.res(ac.get("ver")), "nics": enc.res(ac.get("nic_s")), "nica": enc.res(ac.get("nic_a")),
                   "nicbc": enc.res(ac.get("nic_bc")), "nucp": enc.res(ac.get("NUCp")), "nic": enc.res(ac.get("NIC")),
                   "nucv": enc.res(ac.get("NUCv")), "nacv": enc.res(ac.get("NACv")), "nacp": enc.res(ac.get("NACp"))}}
        # numbers TLC cannot hold (or that would overflow its 32-bit arithmetic) are not passed on: the entry is flagged instead
        wild = 0
        for key, lim in (("live", 500000000), ("tpos", 500000000), ("r", 2097152), ("s", 2097152)):
            if not isinstance(e[key], int) or abs(e[key]) > lim:
                e[key] = 0
                wild = 1
        e["wild"] = wild
        out.append(e)
    out.sort(key=lambda x: x["addr"])
    return out, dup


@reg("tracker.run")
def _tracker_run(pm, v):
    from pyModeS.streamer.decode import Decode
    rx = v["rx"]
    d = Decode(latlon=(360.0 * rx[1] / 1048576, 360.0 * rx[2] / 1048576) if rx[0] else None)
    lower = v.get("lower", 0)

    def hexof(m):
        s = bytes(m["f"]).hex()
        if lower == 0:
            return s.upper()
        if lower == 1:
            return s
        return s.upper() if (m["t"] + len(s)) % 2 else s

    steps = []
    for call in v["script"]:
        exc = 0
        try:
            d.process_raw([m["t"] / 2.0 for m in call["adsb"]], [hexof(m) for m in call["adsb"]],
                          [m["t"] / 2.0 for m in call["commb"]], [hexof(m) for m in call["commb"]],
                          tnow=call["tnow"] / 2.0)
        except Exception as ex:  # noqa: BLE001
            exc = 1
            steps.append({"post": [], "dup": 0, "exc": 1, "err": enc.text(type(ex).__name__ + ": " + str(ex)[:80])})
            break
        post, dup = _project(d.get_aircraft())
        steps.append({"post": post, "dup": dup, "exc": exc})
    return {"t": "steps", "v": steps}


# ---- C19: the software demodulator, no hardware ----
@reg("demod")
def _demod(pm, v):
    import sys
    import types
    if "rtlsdr" not in sys.modules:
        sys.modules["rtlsdr"] = types.ModuleType("rtlsdr")      # the import is optional in rtlreader (prints a warning)
    import contextlib
    import io
    with contextlib.redirect_stdout(io.StringIO()):
        from pyModeS.extra.rtlreader import RtlReader
    r = object.__new__(RtlReader)
    r.signal_buffer = [x / 1000.0 for x in v["sig"]]
    r.noise_floor = 1e6
    r.debug = False
    out = r._process_buffer()
    return {"t": "frames", "v": [enc.text(m[0]) for m in out]}


# ---- C20: observations of pyModeS.aero projected to integers ----
def _clamp(n):
    """keep projected observations inside what JSON / TLC can hold; the verdicts range-check (Sane) before any arithmetic"""
    return max(-2000000000, min(2000000000, int(n)))


def _proj(x, scale):
    x = float(x)
    if x != x or abs(x * scale) > 1e12:
        return 2000000000
    return _clamp(round(x * scale))


def _um(x):
    x = float(x)
    if x != x or abs(x) > 1e12:
        return 2000000000
    return _clamp(round(x * 1e6))


_SHARED = {}


def _shared(np, n, value):
    """one array object per length, updated in place from call to call - the way a caller stepping a trajectory passes its
    altitude buffer; a function that keeps a reference to (rather than a copy of) an earlier argument is caught out"""
    arr = _SHARED.get(n)
    if arr is None:
        arr = _SHARED[n] = np.zeros(n)
    arr[:] = value
    return arr


@reg("aero.isa")
def _a_isa(pm, v):
    import numpy as np
    a = pm.aero
    h = -500.0 + 500.0 * (v["k"] - 1)
    if v.get("arr"):
        p, rho, T = a.atmos(_shared(np, 2, h) if v.get("id", 0) % 2 else np.array([h, h]))
        p, rho, T = p[0], rho[0], T[0]
        p2, r2, T2 = a.pressure(np.array([h]))[0], a.density(np.array([h]))[0], a.temperature(np.array([h]))[0]
    else:
        p, rho, T = a.atmos(h)
        p2, r2, T2 = a.pressure(h), a.density(h), a.temperature(h)
    same = 1 if (float(p) == float(p2) and float(rho) == float(r2) and float(T) == float(T2)) else 0
    return {"t": "obs", "p": _proj(p, 100), "rho": _proj(rho, 1e7), "T": _proj(T, 1000),
            "same": same}


@reg("aero.track")
def _a_track(pm, v):
    """one altitude buffer stepped through several table altitudes IN PLACE, the ISA functions evaluated after every step - the
    way a caller integrating a trajectory uses them; each step must give the atmosphere of the buffer's CURRENT content"""
    import numpy as np
    a = pm.aero
    H = np.zeros(2)
    steps = []
    for k in v["ks"]:
        H[:] = -500.0 + 500.0 * (k - 1)
        p, rho, T = a.atmos(H)
        p2 = a.pressure(H)
        steps.append({"k": k, "p": _proj(p[0], 100), "rho": _proj(rho[1], 1e7), "T": _proj(T[0], 1000),
                      "same": 1 if float(p2[0]) == float(p[0]) else 0})
    return {"t": "obs", "steps": steps}


@reg("aero.tropopause")
def _a_tropo(pm, v):
    a = pm.aero
    out = {}
    for key, h in (("lo", 11000.0 - 1e-3), ("hi", 11000.0 + 1e-3)):
        p, rho, T = a.atmos(h)
        out[key] = [_proj(p, 1e4), _proj(rho, 1e9), _proj(T, 1e6)]
    out["t"] = "obs"
    return out


_PAIRS = {"tas2cas": ("tas2cas", "cas2tas"), "cas2tas": ("cas2tas", "tas2cas"), "tas2eas": ("tas2eas", "eas2tas"),
          "eas2tas": ("eas2tas", "tas2eas"), "tas2mach": ("tas2mach", "mach2tas"), "mach2tas": ("mach2tas", "tas2mach"),
          "mach2cas": ("mach2cas", "cas2mach"), "cas2mach": ("cas2mach", "mach2cas")}


@reg("aero.inverse")
def _a_inv(pm, v):
    import numpy as np
    f, g = (getattr(pm.aero, n) for n in _PAIRS[v["name"]])
    x = v["x"] / 1e6
    h = float(v["h"])
    if v.get("arr"):
        y = f(np.array([x, x]), _shared(np, 2, h) if v.get("id", 0) % 2 else h)[0]
        back = g(np.array([y]), _shared(np, 1, h))[0]
    else:
        y = f(x, h)
        back = g(y, h)
    return {"t": "obs", "v": v["x"], "back": _um(back)}


@reg("aero.monotone")
def _a_mono(pm, v):
    f = getattr(pm.aero, v["name"])
    h = float(v["h"])
    return {"t": "obs", "rows": [[x, _um(f(x / 1e6, h))] for x in v["xs"]]}


@reg("aero.order")
def _a_order(pm, v):
    a = pm.aero
    tas = v["x"] / 1e6
    h = float(v["h"])
    return {"t": "obs", "tas": v["x"], "eas": _um(a.tas2eas(tas, h)), "cas": _um(a.tas2cas(tas, h))}


@reg("aero.distance")
def _a_dist(pm, v):
    import math
    a = pm.aero
    import numpy as np
    H = v.get("H", 0)
    if v.get("arr"):
        d12 = float(a.distance(np.array([v["la1"]] * 2), np.array([v["lo1"]] * 2), np.array([v["la2"]] * 2), np.array([v["lo2"]] * 2), H)[1])
    elif H:
        d12 = float(a.distance(v["la1"], v["lo1"], v["la2"], v["lo2"], H))
    else:
        d12 = float(a.distance(v["la1"], v["lo1"], v["la2"], v["lo2"]))
    d21 = float(a.distance(v["la2"], v["lo2"], v["la1"], v["lo1"], H))
    hav = (1 - math.cos(d12 / (6371000.0 + H))) / 2
    brg = float(a.bearing(v["la1"], v["lo1"], v["la2"], v["lo2"]))
    return {"t": "obs", "d12": _proj(d12, 10), "d21": _proj(d21, 10), "hav": _proj(hav, 1e4),
            "brg": _proj(math.floor(brg * 1000) if brg == brg and abs(brg) < 1e9 else brg, 1)}


@reg("aero.distance_scale")
def _a_dscale(pm, v):
    """the radius argument: distance(p, q, H) is the great-circle distance on a sphere of radius r_earth + H, hence
    distance(p, q, H) * r_earth = distance(p, q, 0) * (r_earth + H) for ANY pair of points - checked for legs from metres to
    thousands of kilometres (coordinates are free reals here: no trigonometric oracle is needed for a ratio)"""
    a = pm.aero
    la1, lo1 = v["la1"] / 1e6, v["lo1"] / 1e6
    la2, lo2 = v["la2"] / 1e6, v["lo2"] / 1e6
    d0 = float(a.distance(la1, lo1, la2, lo2, 0))
    dh = float(a.distance(la1, lo1, la2, lo2, v["H"]))
    dd = float(a.distance(la1, lo1, la2, lo2))
    # centimetres up to ~200 km, else metres (keeps every product of the verdict inside 32 bits)
    unit = 100.0 if d0 < 200000.0 else 1.0
    return {"t": "obs", "d0": _proj(d0, unit), "dh": _proj(dh, unit), "dd": _proj(dd, unit), "hk": v["H"] // 500}


@reg("aero.same")
def _a_same(pm, v):
    import numpy as np
    f = getattr(pm.aero, v["name"])
    x = v["x"] / 1e6
    h = float(v["h"])
    s = float(f(x, h))
    arr = f(np.array([x, x * 0.5, x]), np.array([h, h, h]))
    return {"t": "obs", "a": _um(s), "b": _um(arr[2])}


# ---- the whole receive path wired together: TcpClient/NetSource -> pipe -> Decode, virtual clock ----
@reg("link.run")
def _link_run(pm, v):
    import time as _time
    from pyModeS.streamer.source import NetSource
    from pyModeS.streamer.decode import Decode

    class Flag:
        value = False

    class Pipe:
        def __init__(self):
            self.sent = []

        def send(self, d):
            self.sent.append(d)

    kind = v["kind"]
    rx = v["rx"]
    src = NetSource("localhost", 0, kind)
    dec = Decode(latlon=(360.0 * rx[1] / 1048576, 360.0 * rx[2] / 1048576) if rx[0] else None)
    wire = _wire(kind, v["frs"])
    cuts = [0] + list(v["cuts"]) + [len(wire)]
    chunks = [(k, a, b) for k, (a, b) in enumerate(zip(cuts, cuts[1:])) if b > a]
    real_time = _time.time
    vnow = [0.0]
    _time.time = lambda: vnow[0]
    steps = []
    cur = {}

    class Stop(BaseException):
        pass

    def close_step():
        if cur:
            post, dup = _project(dec.get_aircraft())
            for p in post:
                p.pop("c", None)
            steps.append({"n": cur["n"], "now": cur["now"], "handed": cur["handed"], "sent": cur["sent"], "post": post, "exc": 0, "dup": dup})
            cur.clear()

    class RawIn:
        def send(self, bt):
            cur["sent"].append({"adsb": [list(bytes.fromhex(m)) for m in bt["adsb_msg"]],
                                "commb": [list(bytes.fromhex(m)) for m in bt["commb_msg"]]})
            dec.process_raw(bt["adsb_ts"], bt["adsb_msg"], bt["commb_ts"], bt["commb_msg"])

    class Sock:
        """stands in for the zmq STREAM socket of TcpClient.run: one scripted piece per recv, a receive time-out now and then"""
        def __init__(self):
            self.i = 0
            self.again = 0

        def recv(self, n):
            close_step()
            if self.i >= len(chunks):
                raise Stop()
            k, a, b = chunks[self.i]
            if (a * 7 + b + self.again) % 5 == 0 and self.again < 2 * len(chunks):
                self.again += 1
                import zmq
                # an idle period is a step of its own (no bytes): whatever the loop hands over or sends during it is recorded
                tn = v["times"][k if self.i == 0 else chunks[self.i - 1][0]]
                vnow[0] = tn / 2.0
                cur.update({"n": 0, "now": tn, "handed": [], "sent": []})
                raise zmq.error.Again()
            self.i += 1
            vnow[0] = v["times"][k] / 2.0
            cur.update({"n": b - a, "now": v["times"][k], "handed": [], "sent": []})
            return bytes(wire[a:b])

        def close(self):
            pass

    real_handle = src.handle_messages

    def handle(msgs):
        if not cur:
            cur.update({"n": 0, "now": v["times"][chunks[0][0]], "handed": [], "sent": []})
        cur["handed"] += [enc.text(m[0]) for m in (msgs or [])]
        return real_handle(msgs)

    src.handle_messages = handle
    sock = Sock()
    src.connect = lambda: setattr(src, "socket", sock)
    try:
        try:
            # the real receive loop of the network source (TcpClient.run): recv -> buffer -> framer by datatype -> handle_messages
            src.run(RawIn(), Flag(), None)
        except Stop:
            pass
        except Exception:  # noqa: BLE001
            if not cur:
                cur.update({"n": 0, "now": v["times"][chunks[0][0]], "handed": [], "sent": []})
            if cur:
                steps.append({"n": cur["n"], "now": cur["now"], "handed": cur["handed"], "sent": cur["sent"], "post": [], "exc": 1, "dup": 0})
    finally:
        _time.time = real_time
    return {"t": "steps", "v": steps}


@reg("common.bin2hex_frame")
def _b2hf(pm, v):
    return enc.res(pm.common.bin2hex("".join(format(b, "08b") for b in v["frame"])))


# ---- C17: the decoder process loop Decode.run between fake pipe ends, stepped along a schedule of DecodeLoop actions ----
@reg("decodeloop.run")
def _decodeloop_run(pm, v):
    import time as _time
    from pyModeS.streamer.source import NetSource
    from pyModeS.streamer.decode import Decode

    class Stop(BaseException):           # not an Exception: passes through the loop's `except Exception`
        pass

    toks = list(v["sched"])
    poison = set(v["poison"])
    T0 = 1700000000
    st = {"pos": 0, "sent": 0, "calls": [], "pubs": 0, "excs": 0, "tab": 0}
    q = []                               # the raw pipe
    events = []
    real_time, real_sleep = _time.time, _time.sleep
    _time.time = lambda: float(T0 + 30)
    _time.sleep = lambda s: None

    def bid(d):
        return int(round(d["adsb_ts"][0] - T0))

    def log(a, **kw):
        e = {"a": a, "sent": st["sent"], "pipe": [bid(d) for d in q], "calls": list(st["calls"]), "pubs": st["pubs"], "excs": st["excs"]}
        e.update(kw)
        events.append(e)

    class Flag:
        value = False

    class RawIn:
        def send(self, d):
            q.append(d)

    src = NetSource("localhost", 0, "beast")
    src.stop_flag = Flag()
    src.raw_pipe_in = RawIn()

    def ident(addr, cs):
        f = [0x8D, addr >> 16, (addr >> 8) & 255, addr & 255, 0x20 | 3] + [0] * 6
        code = " ABCDEFGHIJKLMNOPQRSTUVWXYZ                     0123456789      "
        bits = 0
        for ch in cs:
            bits = (bits << 6) | (code.index(ch) + (0 if ch == " " else 0))
        for k in range(6):
            f[5 + k] = (bits >> (8 * (5 - k))) & 255
        hx_ = bytes(f).hex().upper() + "000000"
        return hx_[:22] + "%06X" % pm.crc(hx_, encode=True)

    def do_send():
        b = st["sent"] + 1
        before = len(q)
        if b in poison:
            # malformed input that process_raw cannot digest (not producible by the source, which drops it)
            q.append({"adsb_ts": [T0 + b, T0 + b], "adsb_msg": [ident(0x400000 + b, "POISON%02d" % b), "8D4840D6ZZ2CC371C32CE0576098"],
                      "commb_ts": [], "commb_msg": []})
        else:
            src.handle_messages([[ident(0x400000 + b, "BATCH%03d" % b), T0 + b], [ident(0x400000 + b, "BATCH%03d" % b), T0 + b + 0.25]])
        st["sent"] = b
        log("Send", ok=1 if len(q) == before + 1 else 0)

    def upto(kinds):
        """apply the scheduled sends, then return the next scheduled decoder action (None when the schedule is used up)"""
        while st["pos"] < len(toks) and (toks[st["pos"]] == "Send" or (toks[st["pos"]] == "ProcDone" and "Publish" in kinds)):
            if toks[st["pos"]] == "Send":
                do_send()
            else:
                log("ProcDone")
            st["pos"] += 1
        if st["pos"] >= len(toks):
            raise Stop()
        return toks[st["pos"]]

    def took(kind):
        want = toks[st["pos"]]
        st["pos"] += 1
        if want != kind:
            events.append({"a": "DIVERGED", "want": want, "got": kind, "sent": st["sent"], "pipe": [bid(d) for d in q],
                           "calls": list(st["calls"]), "pubs": st["pubs"], "excs": st["excs"]})
            raise Stop()

    class RawOut:
        def poll(self):
            upto(("Poll",))
            r = len(q) > 0
            took("Poll")
            log("Poll", r=1 if r else 0)
            return r

        def recv(self):
            upto(("Recv",))
            d = q.pop(0)
            took("Recv")
            log("Recv")
            return d

    class AcIn:
        def send(self, acs):
            upto(("Publish",))
            st["pubs"] = len(st["calls"])
            st["tab"] = len(acs)
            took("Publish")
            log("Publish", tab=len(acs))

    class ExcQ:
        def put(self, x):
            st["excs"] += 1
            if events and events[-1]["a"] == "ProcRaise":
                events[-1]["excs"] = st["excs"]

    class D(Decode):
        def process_raw(self, adsb_ts, adsb_msg, commb_ts, commb_msg, tnow=None):
            upto(("ProcOk", "ProcRaise"))
            b = int(round(adsb_ts[0] - T0))
            st["calls"].append(b)
            try:
                r = Decode.process_raw(self, adsb_ts, adsb_msg, commb_ts, commb_msg, tnow)
            except Exception:
                took("ProcRaise")
                log("ProcRaise")
                raise
            took("ProcOk")
            log("ProcOk", tab=len(self.acs))
            return r

    dec = D()
    try:
        dec.run(RawOut(), AcIn(), ExcQ())
    except Stop:
        pass
    finally:
        _time.time, _time.sleep = real_time, real_sleep
    return {"t": "loop", "v": events, "used": st["pos"]}


# ---- the viewer (streamer/screen.py) on a scripted curses window: keys, tables from the pipe, update() ----
@reg("screen.run")
def _screen_run(pm, v):
    import curses
    import time as _time
    import pyModeS.streamer.screen as smod

    H, W = v["H"], 220
    rows = list(range(3, H - 3))

    class Stop(BaseException):
        pass

    KEYS = {"Home": curses.KEY_HOME, "NPage": curses.KEY_NPAGE, "PPage": curses.KEY_PPAGE, "Down": curses.KEY_DOWN,
            "Up": curses.KEY_UP, "Enter": 10, "Esc": 27}
    ATTR = {None: "normal", curses.A_STANDOUT: "standout", curses.A_BOLD: "bold"}

    def icao_of(k):
        return "%06X" % (0x400000 + 37 * k)

    ids = {icao_of(k): k for k in range(1, 200)}

    class Win:
        def __init__(self):
            self.text, self.attr = {}, {}

        def border(self, *a):
            pass

        def addstr(self, r, c, text, attr=None):
            if c == 1:
                self.text[r], self.attr[r] = text, attr

        def refresh(self):
            pass

        def clear(self):
            self.text, self.attr = {}, {}

        def getmaxyx(self):
            return (H, W)

        def move(self, y, x):
            pass

        def instr(self, y, x, n):
            return (self.text.get(y, " " * W) + " " * W)[x - 1:x - 1 + n].encode()

        def getch(self):
            return feed()

    win = Win()
    scr = object.__new__(smod.Screen)
    scr.screen, scr.y, scr.x, scr.offset, scr.acs, scr.lock_icao, scr.columns = win, 3, 1, 0, {}, None, list(smod.COLUMNS)
    obs = []
    steps = list(v["steps"])
    st = {"i": 0, "pending": None}

    def observe(a):
        lk = scr.lock_icao
        lock = 0 if lk is None else ids.get(lk, 1000 if not lk.strip() else 1001)
        shown, hl = [], []
        for r in rows:
            t = win.text.get(r)
            shown.append(0 if t is None or not t[:6].strip() else ids.get(t[:6], -1))
            hl.append("none" if t is None else ATTR.get(win.attr.get(r), "other"))
        obs.append({"a": a, "y": scr.y, "offset": scr.offset, "lock": lock, "shown": shown, "hl": hl, "n": len(scr.acs)})

    def table(idl):
        now = int(_time.time())
        return {icao_of(k): {"call": "T%05d" % k, "lat": 52.0 + k / 7.0, "lon": -4.0 - k / 3.0, "alt": 1000 * k, "gs": 200.5, "tas": None,
                             "ias": None, "mach": 0.7812345, "roc": -64, "trk": 359.98765, "hdg": None, "live": now} for k in idl}

    def feed():
        if st["pending"] is not None:
            observe(st["pending"])
            st["pending"] = None
        while True:
            if st["i"] >= len(steps):
                raise Stop()
            s = steps[st["i"]]
            st["i"] += 1
            if s["a"] == "Table":
                scr.update_ac(table(s["acs"]))        # what Screen.run does with a table received from the aircraft pipe
                observe("Table")
            elif s["a"] == "Render":
                scr.update()
                observe("Render")
            else:
                st["pending"] = s["a"]
                return KEYS[s["a"]]

    real = smod.curses.is_term_resized
    smod.curses.is_term_resized = lambda h, w: False
    err = None
    if v.get("init"):
        scr.update_ac(table(v["init"]))          # the fixed-table configurations of ScreenSM start with the table loaded
    try:
        scr.kye_handling()
    except Stop:
        pass
    except Exception as ex:  # noqa: BLE001
        err = type(ex).__name__ + ": " + str(ex)[:100]
    finally:
        smod.curses.is_term_resized = real
    out = {"t": "screen", "v": obs}
    if err:
        out["err"] = enc.text(err)
    return out
