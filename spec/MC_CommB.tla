------------------------------ MODULE MC_CommB ------------------------------
(* Role A for C11/C12: the register layouts written as (value, width) lists  *)
(* (encoder) agree with the absolute bit positions (decoder) for every raw   *)
(* value of every field; the fields tile the 56 bits; encodings with         *)
(* status-consistent in-envelope values satisfy the register's acceptance    *)
(* rules (completeness) and a payload violating one status rule does not     *)
(* (soundness).                                                              *)
EXTENDS CommB, TLC

CONSTANT XStride      \* 1: every raw value of every field; k: every k-th (plus boundaries) for fields wider than 9 bits
VARIABLE j

Init == j \in ([k : {"f"}, reg : {40, 50, 53, 60, 44, 45}, fld : 1..8, st : 0..1, sg : 0..1] \cup [k : {"tile"}]
               \cup [k : {"env"}, reg : {40, 50, 53, 60}, a : 0..7] \cup [k : {"cas"}])
Next == UNCHANGED j /\ FALSE

Frame20(mb) == BuildCommB(20, 1234, mb, 4840952)
Ones(n) == [k \in 1..n |-> 1]
W(reg) == CASE reg = 40 -> <<12, 12, 12, 3, 2>> [] reg = 50 -> <<9, 10, 10, 9, 10>> [] reg = 53 -> <<10, 10, 9, 12, 8>>
            [] reg = 60 -> <<10, 10, 10, 9, 9>> [] reg = 44 -> <<9, 9, 10, 11, 2, 6>> [] reg = 45 -> <<2, 2, 2, 2, 2, 9, 11, 12>>
NF(reg) == Len(W(reg))

\* frame with field `fld` = raw value x, its status = st, its sign = sg, all other fields "busy" (status 1, alternating bits)
Mk(reg, fld, st, sg, x) ==
  LET n == NF(reg)
      v == [k \in 1..n |-> IF k = fld THEN x ELSE (Pow2(W(reg)[k]) - 1) \div 3]
      s == [k \in 1..n |-> IF k = fld THEN st ELSE 1]
      g == [k \in 1..n |-> IF k = fld THEN sg ELSE 0]
  IN  Frame20(CASE reg = 40 -> MB40(s, v) [] reg = 50 -> MB50(s, g, v) [] reg = 53 -> MB53(s, g, v)
                [] reg = 60 -> MB60(s, g, v) [] reg = 44 -> MB44(3, s, g, v) [] reg = 45 -> MB45(s, g, v))

Tw(x, w, sg) == IF sg = 1 THEN x - Pow2(w) ELSE x
G(st, q) == IF st = 1 THEN q ELSE NAq

\* expected engineering value of field fld of register reg for raw x / status / sign
Want(reg, fld, st, sg, x) ==
  CASE reg = 40 /\ fld = 1 -> G(st, <<16 * x, 1>>) [] reg = 40 /\ fld = 2 -> G(st, <<16 * x, 1>>)
    [] reg = 40 /\ fld = 3 -> G(st, <<x + 8000, 10>>)
    [] reg = 50 /\ fld = 1 -> G(st, <<45 * Tw(x, 9, sg), 256>>)
    [] reg = 50 /\ fld = 2 -> G(st, Wrap360(90 * Tw(x, 10, sg), 512))
    [] reg = 50 /\ fld = 3 -> G(st, <<2 * x, 1>>) [] reg = 50 /\ fld = 4 -> G(st, <<Tw(x, 9, sg), 32>>)
    [] reg = 50 /\ fld = 5 -> G(st, <<2 * x, 1>>)
    [] reg = 53 /\ fld = 1 -> G(st, Wrap360(90 * Tw(x, 10, sg), 512)) [] reg = 53 /\ fld = 2 -> G(st, <<x, 1>>)
    [] reg = 53 /\ fld = 3 -> G(st, <<x, 125>>) [] reg = 53 /\ fld = 4 -> G(st, <<x, 2>>)
    [] reg = 53 /\ fld = 5 -> G(st, IF x \in {0, 255} THEN <<0, 1>> ELSE <<64 * Tw(x, 8, sg), 1>>)
    [] reg = 60 /\ fld = 1 -> G(st, Wrap360(90 * Tw(x, 10, sg), 512)) [] reg = 60 /\ fld = 2 -> G(st, <<x, 1>>)
    [] reg = 60 /\ fld = 3 -> G(st, <<x, 250>>) [] reg = 60 /\ fld = 4 -> G(st, <<32 * Tw(x, 9, sg), 1>>)
    [] reg = 60 /\ fld = 5 -> G(st, <<32 * Tw(x, 9, sg), 1>>)
    [] reg = 44 /\ fld = 1 -> G(st, <<x, 1>>) [] reg = 44 /\ fld = 3 -> <<2 * Tw(x, 10, sg), 8>>
    [] reg = 44 /\ fld = 4 -> G(st, <<x, 1>>) [] reg = 44 /\ fld = 5 -> G(st, <<x, 1>>) [] reg = 44 /\ fld = 6 -> G(st, <<25 * x, 16>>)
    [] reg = 45 /\ fld \in 1..5 -> G(st, <<x, 1>>) [] reg = 45 /\ fld = 6 -> <<Tw(x, 9, sg), 4>>
    [] reg = 45 /\ fld = 7 -> G(st, <<x, 1>>) [] reg = 45 /\ fld = 8 -> G(st, <<16 * x, 1>>)
    [] OTHER -> <<0, 0>>

Got(reg, fld, f) ==
  CASE reg = 40 /\ fld = 1 -> SelAlt40mcp(f) [] reg = 40 /\ fld = 2 -> SelAlt40fms(f) [] reg = 40 /\ fld = 3 -> P40baro(f)
    [] reg = 50 /\ fld = 1 -> Roll50(f) [] reg = 50 /\ fld = 2 -> Trk50(f) [] reg = 50 /\ fld = 3 -> Gs50(f)
    [] reg = 50 /\ fld = 4 -> Rtrk50(f) [] reg = 50 /\ fld = 5 -> Tas50(f)
    [] reg = 53 /\ fld = 1 -> Hdg53(f) [] reg = 53 /\ fld = 2 -> Ias53(f) [] reg = 53 /\ fld = 3 -> Mach53(f)
    [] reg = 53 /\ fld = 4 -> Tas53(f) [] reg = 53 /\ fld = 5 -> Vr53(f)
    [] reg = 60 /\ fld = 1 -> Hdg60(f) [] reg = 60 /\ fld = 2 -> Ias60(f) [] reg = 60 /\ fld = 3 -> Mach60(f)
    [] reg = 60 /\ fld = 4 -> Vr60baro(f) [] reg = 60 /\ fld = 5 -> Vr60ins(f)
    [] reg = 44 /\ fld = 1 -> Wind44spd(f) [] reg = 44 /\ fld = 3 -> Temp44a(f) [] reg = 44 /\ fld = 4 -> P44(f)
    [] reg = 44 /\ fld = 5 -> Turb44(f) [] reg = 44 /\ fld = 6 -> Hum44(f)
    [] reg = 45 /\ fld = 1 -> Turb45(f) [] reg = 45 /\ fld = 2 -> Ws45(f) [] reg = 45 /\ fld = 3 -> Mb45(f)
    [] reg = 45 /\ fld = 4 -> Ic45(f) [] reg = 45 /\ fld = 5 -> Wv45(f) [] reg = 45 /\ fld = 6 -> Temp45(f)
    [] reg = 45 /\ fld = 7 -> P45(f) [] reg = 45 /\ fld = 8 -> Rh45(f)
    [] OTHER -> <<0, 0>>

Layout == (j.k = "f" /\ j.fld <= NF(j.reg) /\ Want(j.reg, j.fld, 1, 0, 0) # <<0, 0>>) =>
   \A x \in {y \in 0..(Pow2(W(j.reg)[j.fld]) - 1) :
               W(j.reg)[j.fld] <= 9 \/ y % XStride = 0 \/ y < 4 \/ y > Pow2(W(j.reg)[j.fld]) - 4
               \/ Abs(y - Pow2(W(j.reg)[j.fld] - 1)) < 3} :
      Got(j.reg, j.fld, Mk(j.reg, j.fld, j.st, j.sg, x)) = Want(j.reg, j.fld, j.st, j.sg, x)

Tiling == j.k = "tile" =>
   /\ Len(MB40(Ones(5), Ones(5))) = 56 /\ Len(MB50(Ones(5), Ones(5), Ones(5))) = 56 /\ Len(MB53(Ones(5), Ones(5), Ones(5))) = 56
   /\ Len(MB60(Ones(5), Ones(5), Ones(5))) = 56 /\ Len(MB44(1, Ones(6), Ones(6), Ones(6))) = 56
   /\ Len(MB45(Ones(8), Ones(8), Ones(8))) = 56

\* completeness / soundness on envelope boundaries
Z5 == <<0, 0, 0, 0, 0>>
Env == j.k = "env" =>
   LET on(k) == (j.a \div Pow2(k - 1)) % 2           \* which of the first three fields are present
       s == <<on(1), on(2), on(3), 1, 1>>
   IN  CASE j.reg = 50 ->
              \* roll +-50 deg = raw 284; GS, TAS 600 kt = raw 300; |TAS - GS| = 200 kt = raw diff 100
              /\ Is50(Frame20(MB50(s, Z5, <<284 * s[1], 100 * s[2], 300 * s[3], 7, 200>>)))
              /\ Is50(Frame20(MB50(s, <<s[1], 0, 0, 1, 0>>, <<(512 - 284) * s[1], 100 * s[2], 200 * s[3], 500, 300>>)))
              /\ ~Is50(Frame20(MB50(<<1, 1, 1, 1, 1>>, Z5, <<285, 1, 1, 1, 1>>)))              \* roll 50.1 deg
              /\ ~Is50(Frame20(MB50(<<1, 1, 1, 1, 1>>, Z5, <<1, 1, 301, 1, 300>>)))            \* GS 602 kt
              /\ ~Is50(Frame20(MB50(<<1, 1, 1, 1, 1>>, Z5, <<1, 1, 100, 1, 201>>)))            \* |TAS-GS| = 202 kt
              /\ ~Is50(Frame20(MB50(<<0, 1, 1, 1, 1>>, Z5, <<1, 1, 1, 1, 1>>)))                \* status 0, value set
         [] j.reg = 60 ->
              /\ Is60Format(Frame20(MB60(s, Z5, <<100 * s[1], 500 * s[2], 250 * s[3], 187, 187>>)))   \* IAS 500, Mach 1, VR 5984
              /\ ~Is60Format(Frame20(MB60(<<1, 1, 1, 1, 1>>, Z5, <<1, 501, 1, 1, 1>>)))
              /\ ~Is60Format(Frame20(MB60(<<1, 1, 1, 1, 1>>, Z5, <<1, 1, 251, 1, 1>>)))
              /\ ~Is60Format(Frame20(MB60(<<1, 1, 1, 1, 1>>, Z5, <<1, 1, 1, 188, 1>>)))               \* 6016 ft/min
              /\ ~Is60Format(Frame20(MB60(<<1, 1, 0, 1, 1>>, Z5, <<1, 1, 1, 1, 1>>)))
         [] j.reg = 53 ->
              /\ Is53(Frame20(MB53(s, Z5, <<100 * s[1], 500 * s[2], 125 * s[3], 1000, 125>>)))
              /\ ~Is53(Frame20(MB53(<<1, 1, 1, 1, 1>>, Z5, <<1, 501, 1, 1, 1>>)))
              /\ ~Is53(Frame20(MB53(<<1, 1, 1, 1, 1>>, Z5, <<1, 1, 126, 1, 1>>)))
         [] j.reg = 40 ->
              /\ Is40(Frame20(MB40(s, <<4095 * s[1], 17 * s[2], 2132 * s[3], 5, 2>>)))
              /\ ~Is40(Frame20(MB40(<<1, 0, 1, 1, 1>>, <<1, 1, 1, 1, 1>>)))

\* the CAS table is decreasing in altitude and increasing in Mach (the bracketing argument of MachIasRule)
CasMonotone == j.k = "cas" =>
   /\ \A m \in 2..251 : \A h \in 1..66 : CasTable[m][h + 1] < CasTable[m][h]
   /\ \A m \in 1..250 : \A h \in 1..67 : CasTable[m + 1][h] > CasTable[m][h]
   /\ CasTable[201][2] = 52918        \* Mach 0.8 at sea level = 529.18 kt
=============================================================================
