INIT Init
NEXT Next
POSTCONDITION Done
CHECK_DEADLOCK FALSE
