"""C14 - decoders are total and type-guarded on well-formed frames.

The domain of every decoder is part of its verdict operator in the spec (TV_*.tla: `Guard`, `T29`, `SurvGuard`, ...),
so this check drives every cell DF(32) x TC(32) x subtype(8) x length x payload filling through every exported callable
and lets TLC judge each outcome: a value only inside the documented domain (and the right one), RuntimeError outside,
never another exception.  Functions that are unguarded by construction (documented without DF/TC: df, icao, typecode,
oe_flag, the pairwise/with-ref position decoders, the Comm-B field decoders, isXX) are judged for totality only
(event flag tot = 1), and '28 hexdigits' functions are not judged on 14-digit input (out of documented input).
A: MC_ADSB / MC_C08 establish the layouts the guards are keyed on (TC at ME 1-5, subtypes); the guard tables themselves
   are the verdict operators.
"""
from .. import gen, calls
from . import c01

# (fn, needs long frame, totality-only)
def catalogue():
    cat = []
    strict_adsb = ["callsign", "category", "altitude", "altitude05", "velocity", "airborne_velocity", "surface_velocity",
                   "speed_heading", "altitude_diff", "emergency_state", "is_emergency", "emergency_squawk",
                   "selected_altitude", "target_altitude", "vertical_mode", "horizontal_mode", "selected_heading",
                   "target_angle", "baro_pressure_setting", "autopilot", "vnav_mode", "altitude_hold_mode", "approach_mode",
                   "lnav_mode", "tcas_operational", "tcas_ra", "emergency_status", "version", "nic_s", "nic_a_c", "nic_b",
                   "nac_p", "nac_v", "nuc_v", "sil", "nuc_p", "nic_v1", "nic_v2", "typecode", "df", "icao"]
    for n in strict_adsb:
        cat.append(("adsb." + n, False, False))
    cat.append(("adsb.oe_flag", False, False))
    cat.append(("adsb.position_with_ref", True, False))            # routing judged; value by the CPR model
    for n in ("airborne_position_with_ref", "surface_position_with_ref"):
        cat.append(("adsb." + n, True, True))
    for n in calls.COMMB_DEN:
        cat.append(("commb." + n, True, True))
    cat.append(("commb.cs20", True, True))
    cat.append(("bds.infer", True, False))
    for n in ("surv.fs", "surv.dr", "surv.um", "surv.altitude", "surv.identity", "allcall.icao", "allcall.interrogator",
              "allcall.capability", "common.idcode", "common.altcode", "common.df", "common.typecode", "common.icao",
              "common.crc", "common.hex2bin", "tell"):
        cat.append((n, False, False))
    cat.append(("common.allzeros", True, False))
    return cat


def cells(ctx):
    """well-formed frames: every DF; for DF17/18 every TC x subtype; payload fillings"""
    rng = ctx.rng
    fills = ["zeros", "ones", "aa", "rnd1", "rnd2"]
    out = []
    for df in range(32):
        n = 14 if df >= 16 else 7
        tcs = range(32) if df in (17, 18) else [None]
        for tc in tcs:
            sts = range(8) if tc is not None else [None]
            for st in sts:
                fl = fills if not ctx.quick else [fills[(df + (tc or 0) + (st or 0)) % 3], "rnd1"]
                for fill in fl:
                    if fill == "zeros":
                        f = [0] * n
                    elif fill == "ones":
                        f = [255] * n
                    elif fill == "aa":
                        f = [0xAA] * n
                    else:
                        f = [rng.randrange(256) for _ in range(n)]
                    f[0] = (df << 3) | (f[0] & 7)
                    if tc is not None:
                        f = gen.set_bits(f, 33, 37, tc)
                        f = gen.set_bits(f, 38, 40, st)
                    out.append((f, [df, -1 if tc is None else tc, -1 if st is None else st, fill]))
    return out


def vectors(ctx):
    rng = ctx.rng
    V = []
    cat = catalogue()
    from .. import enc
    for f, cell in cells(ctx):
        long_ = len(f) == 14
        for fn, needs_long, tot in cat:
            if needs_long and not long_:
                continue
            v = {"fn": fn, "frame": f, "case": cell, "cs": rng.choice([0, 0, 1])}
            if tot:
                v["tot"] = 1
            if fn in ("adsb.velocity", "adsb.airborne_velocity", "adsb.surface_velocity"):
                v["src"] = rng.randrange(2)
            if fn == "adsb.sil":
                v["version"] = rng.choice([-1, 0, 1, 2])
            if fn == "adsb.nic_v1":
                v["nics"] = rng.randrange(2)
            if fn == "adsb.nic_v2":
                v["nica"] = rng.randrange(2)
                v["nicbc"] = rng.randrange(2)
            if fn.endswith("position_with_ref"):
                v.update({"r": rng.randrange(-200000, 200000), "s": rng.randrange(-500000, 500000), "ht": 0,
                          "truth": [0, 0], "kind": "surf" if (long_ and 5 <= (f[4] >> 3) <= 8) else "air"})
            if fn == "bds.infer":
                v["mrar"] = rng.randrange(2)
            if fn == "common.crc":
                v["enc"] = rng.randrange(2)
            if fn in ("common.icao", "adsb.icao", "allcall.icao"):
                v["cs"] = 0
                v["text"] = enc.text(bytes(f).hex().upper())
                v["rel"] = 0
            V.append(v)
        # pairwise position decoders: totality on every long cell (paired with itself and with a partner of other parity)
        if long_:
            g = gen.set_bits(f, 54, 54, 1 - gen.get_bits(f, 54, 54))
            for fn in ("adsb.position", "adsb.airborne_position", "adsb.surface_position"):
                for other in (f, g):
                    V.append({"fn": fn, "f0": f, "f1": other, "t0": 1, "t1": 2, "ht": 0, "truth": [[0, 0], [0, 0]],
                              "kind": "air", "hasref": 1 if fn != "adsb.airborne_position" else 0, "r": 1000, "s": 2000,
                              "dt": 0, "case": cell + [fn, int(other is g)], "tot": 1})
    # boundary-directed frames of the other properties' generators (every value of every field, reserved codes),
    # judged here for totality only (their values are the other checks' business)
    from . import c07, c08, c09, c10, c11, c12, c13
    for mod, keep in ((c07, 5), (c08, 9), (c09, 3), (c10, 4), (c13, 5), (c11, 9), (c12, 4)):
        for k, v in enumerate(mod.vectors(ctx)):
            if k % keep == ctx.seed % keep and v["fn"] not in ("monotone", "crc_legacy", "bds.is50or60") and "frame" in v:
                v = dict(v)
                v["tot"] = 1
                v["case"] = ["borrowed", mod.__name__[-3:], k]
                V.append(v)
                # the pretty-printer dispatches on DF / TC / inferred register and then calls the field decoders: it sees the
                # same structured frames (registers with every status pattern, every reserved code), totality only
                if len(v["frame"]) == 14 and k % (2 * keep) == ctx.seed % keep:
                    V.append({"fn": "tell", "frame": v["frame"], "case": ["borrowed_tell", mod.__name__[-3:], k], "cs": 0, "tot": 1})
    # dispatcher routing of the pairwise decoder: every TC x TC pair (both parities orders), with and without a receiver
    # location - judged with the full verdict (value inside the routed domain, RuntimeError for inconsistent pairs)
    for tc0 in range(32):
        for tc1 in range(32):
            for oe0 in (0, 1):
                f0 = gen.set_bits(gen.set_bits(gen.rand_frame_df(rng, rng.choice([17, 18])), 33, 37, tc0), 54, 54, oe0)
                f1 = gen.set_bits(gen.set_bits(gen.rand_frame_df(rng, rng.choice([17, 18])), 33, 37, tc1), 54, 54, 1 - oe0)
                hasref = rng.randrange(2)
                V.append({"fn": "adsb.position", "f0": f0, "f1": f1, "t0": 1 + oe0, "t1": 2 - oe0, "ht": 0,
                          "truth": [[0, 0], [0, 0]], "kind": "surf" if (5 <= tc0 <= 8 and 5 <= tc1 <= 8) else "air",
                          "hasref": hasref, "r": rng.randrange(-200000, 200000), "s": rng.randrange(-500000, 500000), "dt": 0,
                          "case": ["pair", tc0, tc1, oe0, hasref]})
    # surface pairs re-decoded with the receiver longitude a few ulps around each flip point of the longitude choice
    for k in range(ctx.pick(150, 4000)):
        f0 = gen.set_bits(gen.set_bits(gen.rand_frame_df(rng, 17), 33, 37, rng.randint(5, 8)), 54, 54, 0)
        f1 = gen.set_bits(gen.set_bits(gen.rand_frame_df(rng, 17), 33, 37, rng.randint(5, 8)), 54, 54, 1)
        f1 = gen.set_bits(f1, 55, 71, (gen.get_bits(f0, 55, 71) + rng.randrange(-3, 4)) % 131072)      # same latitude zone: a decodable pair
        V.append({"fn": "adsb.surface_position.edge", "f0": f0, "f1": f1, "t0": 1 + k % 2, "t1": 2 - k % 2,
                  "r": rng.randrange(-250000, 250000), "s": rng.randrange(-500000, 500000), "case": ["edge", k]})
    # tell() on every surface movement code and every TC19 / TC29 boundary frame
    for mov in range(128):
        f = gen.rand_frame_df(rng, 17)
        f = gen.set_bits(f, 33, 37, rng.randint(5, 8))
        f = gen.set_bits(f, 38, 44, mov)
        V.append({"fn": "tell", "frame": f, "case": ["tell_mov", mov], "cs": 0})
    # seeded random frames through a random subset of the catalogue
    for k in range(ctx.pick(1500, 150000)):
        df = rng.randrange(32)
        f = gen.rand_frame_df(rng, df)
        for fn, needs_long, tot in rng.sample(cat, 6):
            if needs_long and len(f) != 14:
                continue
            v = {"fn": fn, "frame": f, "case": ["rnd", k], "cs": 0}
            if tot:
                v["tot"] = 1
            v.update({"src": 0, "version": 2, "nics": 1, "nica": 1, "nicbc": 0, "mrar": 1, "enc": 0})
            if fn.endswith("position_with_ref"):
                v.update({"r": 5, "s": 7, "ht": 0, "truth": [0, 0], "kind": "surf" if (len(f) == 14 and 5 <= (f[4] >> 3) <= 8) else "air"})
            if fn in ("common.icao", "adsb.icao", "allcall.icao"):
                v["text"] = enc.text(bytes(f).hex().upper())
                v["rel"] = 0
            V.append(v)
    return V


def suite_recording(ctx):
    """the repository's own test-suite, recorded call by call (pytest plugin living in /verif) - validated like any trace"""
    import json
    import os
    import subprocess
    import sys
    from ..lanes import REPO
    from ..core import VERIF
    out = os.path.join(ctx.tmp, "suite.ndjson")
    env = dict(os.environ, VERIF_RECORD=out, PYTHONPATH=VERIF + os.pathsep + os.path.join(REPO, "src"), PYTHONHASHSEED="0")
    p = subprocess.run([sys.executable, "-m", "pytest", "-q", "-p", "no:cacheprovider", "-p", "vlib.record_plugin", "tests"],
                       cwd=REPO, env=env, stdout=subprocess.PIPE, stderr=subprocess.STDOUT, text=True)
    ctx.extra["suite_run"] = p.stdout.strip().splitlines()[-1] if p.stdout.strip() else "no output"
    ev = []
    if os.path.exists(out):
        for k, line in enumerate(open(out)):
            e = json.loads(line)
            e["id"] = 5 * 10 ** 7 + k
            e["case"] = ["suite", k]
            ev.append(e)
    ctx.extra["suite_calls_recorded"] = len(ev)
    return ev


def case_of(e):
    return (e["fn"],) + tuple(e["case"])


def run(ctx):
    ctx.rule = ("cells: DF 0..31 (length by DF) and, for DF17/18, TC 0..31 x subtype 0..7, each with 5 (quick: 2) payload fillings "
                "(zeros, ones, 0xAA, seeded x2), through every exported callable (84 judged with full verdicts, the rest for "
                "totality); seeded random frames; distinct = (fn, DF, TC, subtype, filling)")
    ctx.assumptions += ["'well-formed' = 14/28 hex digits with length consistent with the DF; functions documented for 28 digits are "
                        "not judged on 14-digit input; TC29 subtypes 2-3 (reserved) may be refused or decoded"]
    ctx.model_check("MC_ADSB", cfg="MC_ADSB.cfg", what="ADS-B ME layouts")
    ctx.model_check("MC_C08", cfg="MC_C08.cfg", what="reply headers")
    ev = ctx.replay(vectors(ctx))
    fns = set()
    for e in ev:
        ctx.distinct.add(case_of(e))
        fns.add(e["fn"])
    ctx.extra["callables_exercised"] = len(fns)
    ctx.extra["outcomes"] = {}
    for e in ev:
        k = {"e": "RuntimeError", "x": "other exception"}.get(e["res"]["t"], "value")
        ctx.extra["outcomes"][k] = ctx.extra["outcomes"].get(k, 0) + 1
    ctx.samples += [ev[0], ev[len(ev) // 3], ev[-1]]
    sv = suite_recording(ctx)
    for e in sv:
        ctx.distinct.add(case_of(e))
    ctx.judge(ctx.validate(ev + sv))


replay = c01.replay
