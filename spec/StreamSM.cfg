SPECIFICATION Spec
INVARIANT FramingHolds
INVARIANT Complete
PROPERTY AppendOnly
PROPERTY IdleNoOp
CHECK_DEADLOCK FALSE
CONSTANTS
 Kinds = {"beast", "raw", "skysense"}
 Positions = {1, 2, 6, 7, 8, 9, 14, 20, 21}
 Specials = {26, 49, 51, 36, 42, 59, 0, 141}
 MaxChunk = 200
