----------------------------- MODULE Trace_Stream ---------------------------
(* Role C for C16: runs of the real TCP client (buffer.extend(chunk);        *)
(* read_*_buffer()) recorded step by step and checked against the framing    *)
(* property of module Stream.  Trace lines:                                  *)
(*  [ev |-> "start", run, kind, frs]            a new client, a new stream   *)
(*  [ev |-> "step", run, n, out, x]             n more bytes arrived; `out`  *)
(*                                              = messages returned (text);  *)
(*                                              x = 1: the reader raised     *)
(*  [ev |-> "net", run, src, msgs, adsb, commb] NetSource / RtlSdrSource:    *)
(*                                              handed messages,             *)
(*                                              everything forwarded + local *)
EXTENDS Stream, TLC, Json, IOUtils

Events == ndJsonDeserialize(IOEnv.TRACE_FILE)

VARIABLES l, kind, frs, p, out, failed

\* what the client hands over is text: upper-case hex for Beast / Skysense, the received characters for raw
AsText(k, m) == IF k = "raw" THEN m ELSE TextOfBytes(m)
TextOut(k, f, K) == LET o == OutUpTo(k, f, K) IN [i \in 1..Len(o) |-> AsText(k, o[i])]
FramingText(k, f, pp, o) == \E K \in MustCount(k, f, pp)..MayCount(k, f, pp) : o = TextOut(k, f, K)

IsLongOf(m, dfs) == Len(m) = 14 /\ DF(m) \in dfs
NetOK(e) ==
  /\ e.adsb = SelectSeq(e.msgs, LAMBDA m : IsLongOf(m, {17, 18}))
  /\ e.commb = SelectSeq(e.msgs, LAMBDA m : IsLongOf(m, {20, 21}))

Init == l = 1 /\ kind = "" /\ frs = <<>> /\ p = 0 /\ out = <<>> /\ failed = FALSE /\ TLCSet(1, 0)

Reject(e, why) == PrintT(<<"REJECT", e.run, why>>) /\ TLCSet(1, TLCGet(1) + 1)

Next ==
  /\ l <= Len(Events)
  /\ l' = l + 1
  /\ LET e == Events[l] IN
     CASE e.ev = "start" ->
            /\ kind' = e.kind /\ frs' = e.frs /\ p' = 0 /\ out' = <<>> /\ failed' = FALSE
       [] e.ev = "step" ->
            LET np == p + e.n
                no == out \o e.out
                ok == failed \/ (e.x = 0 /\ FramingText(kind, frs, np, no))
            IN  /\ p' = np /\ out' = no
                /\ failed' = (failed \/ ~ok)
                /\ (IF ok THEN TRUE ELSE Reject(e, IF e.x = 1 THEN "reader_raised" ELSE IF Len(no) > MayCount(kind, frs, np) THEN "framing_too_many_or_early"
                                    ELSE IF \E K \in 0..Len(frs) : no = TextOut(kind, frs, K) THEN "framing_frame_withheld"
                                    ELSE "framing_message_corrupted_lost_or_duplicated"))
                /\ UNCHANGED <<kind, frs>>
       [] e.ev = "net" ->
            /\ (IF NetOK(e) THEN TRUE ELSE Reject(e, IF e.src = "rtl" THEN "drift:rtlsdr_source_forwarding" ELSE "netsource_forwarding"))
            /\ UNCHANGED <<kind, frs, p, out, failed>>

Done == PrintT(<<"DONE", Len(Events), TLCGet("stats").diameter, TLCGet(1)>>)
=============================================================================
