"""Shared by C03/C04/C05: run MC_CPR (Role A), parse its state dump, build frames from the spec-encoded fields."""
import os

from . import gen, tlaval

POLE = 4194304


def phases(ctx):
    """anchor shards: quick = one quarter of the anchors (rotated by the seed); thorough = all four quarters, one after the
    other so that dump, vectors and events of only one shard are in memory at a time"""
    return [ctx.seed % 4] if ctx.quick else [0, 1, 2, 3]


def run_model(ctx, mode, what, phase=None):
    q = ctx.quick
    if phase is None:
        phase = ctx.seed % 4
    seeds = sorted({ctx.rng.randrange(1 << 24) for _ in range(3 if q else 5)})
    seedlats = sorted({ctx.rng.randrange(2 * POLE + 1) for _ in range(40 if q else 150)})
    cfg = ("INIT Init\nNEXT Next\nINVARIANT AirGlobalOK\nINVARIANT SurfGlobalOK\nINVARIANT LocalOK\n"
           "CHECK_DEADLOCK FALSE\nCONSTANTS\n Mode = \"%s\"\n DLatAbs = {%s}\n Stride = %d\n Phase = %d\n"
           " SeedLons = {%s}\n SeedLats = {%s}\n" % (
               mode, "0,1,2,4" if q else "0,1,2,3,4,5,6,7", 4, phase,
               ",".join(map(str, seeds)), ",".join(map(str, seedlats))))
    dump = os.path.join(ctx.tmp, "cpr_%s.dump" % mode)
    ctx.model_check("MC_CPR", cfg_text=cfg, dump=dump, what=what, timeout=3000)
    states = [s["c"] for s in tlaval.parse_dump(dump) if s["c"].get("ph") == "case"]
    os.unlink(dump)
    return states


def frame(rng, tc, parity, yz, xz, df=None):
    f = gen.rand_frame_df(rng, df or rng.choice([17, 17, 18]))
    f = gen.set_bits(f, 33, 37, tc)
    f = gen.set_bits(f, 54, 54, parity)
    f = gen.set_bits(f, 55, 71, yz)
    f = gen.set_bits(f, 72, 88, xz)
    return f


AIR_TCS = list(range(9, 19)) + [20, 21, 22]


def air_tc_pair(rng, k):
    """two type codes of the same family (baro 9-18 or GNSS 20-22)"""
    if k % 4 == 3:
        return rng.randint(20, 22), rng.randint(20, 22)
    return rng.randint(9, 18), rng.randint(9, 18)


def rx20(x):
    return (x + 8) // 16
