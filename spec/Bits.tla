-------------------------------- MODULE Bits --------------------------------
(* Bit strings, byte sequences and hexadecimal text.                         *)
(* A Mode S frame is a sequence of bytes (7 or 14); bit 1 is the MSB of the  *)
(* first byte, as in Annex 10.  All integers stay below 2^31.                *)
EXTENDS Naturals, Integers, Sequences, Bitwise

Pow2(n) == 2^n

\* bit n (1-based, MSB first) of the byte sequence f
Bit(f, n) == (f[((n - 1) \div 8) + 1] \div Pow2(7 - ((n - 1) % 8))) % 2

\* unsigned value of bits a..b (inclusive, 1-based) of byte sequence f; b-a+1 <= 24
Field(f, a, b) ==
  LET fb == ((a - 1) \div 8) + 1
      lb == ((b - 1) \div 8) + 1
      first == f[fb] % Pow2(8 - ((a - 1) % 8))
      RECURSIVE Acc(_, _)
      Acc(acc, k) == IF k > lb THEN acc ELSE LET nx == acc * 256 + f[k] IN Acc(nx, k + 1)
  IN  Acc(first, fb + 1) \div Pow2(7 - ((b - 1) % 8))

BitsOf(f) == [n \in 1..(8 * Len(f)) |-> Bit(f, n)]

\* value of a bit sequence (MSB first), Len <= 31
IntOfBits(bs) ==
  LET RECURSIVE Go(_, _)
      Go(acc, k) == IF k > Len(bs) THEN acc ELSE LET nx == 2 * acc + bs[k] IN Go(nx, k + 1)
  IN  Go(0, 1)

\* w-bit big-endian representation of v
FromInt(v, w) == [k \in 1..w |-> (v \div Pow2(w - k)) % 2]

\* pack a bit sequence whose length is a multiple of 8 into bytes
BytesOf(bs) == [k \in 1..(Len(bs) \div 8) |->
                  128 * bs[8*k-7] + 64 * bs[8*k-6] + 32 * bs[8*k-5] + 16 * bs[8*k-4]
                  + 8 * bs[8*k-3] + 4 * bs[8*k-2] + 2 * bs[8*k-1] + bs[8*k]]

\* two's complement value of an unsigned w-bit field
Signed(v, w) == IF v >= Pow2(w - 1) THEN v - Pow2(w) ELSE v

Abs(x) == IF x < 0 THEN -x ELSE x
Max(a, b) == IF a >= b THEN a ELSE b
Min(a, b) == IF a <= b THEN a ELSE b

\* floor division and non-negative remainder for possibly negative numerators (d > 0)
FloorDiv(n, d) == IF n >= 0 THEN n \div d ELSE -((-n + d - 1) \div d)
PosMod(n, d) == n - d * FloorDiv(n, d)

(* ---- hexadecimal text as sequences of character codes ---- *)
HexVal(c) == IF c >= 48 /\ c <= 57 THEN c - 48
             ELSE IF c >= 65 /\ c <= 70 THEN c - 55
             ELSE IF c >= 97 /\ c <= 102 THEN c - 87
             ELSE -1

IsHexText(t) == \A k \in 1..Len(t) : HexVal(t[k]) >= 0

\* bytes denoted by hex text of even length
BytesOfText(t) == [k \in 1..(Len(t) \div 2) |-> 16 * HexVal(t[2*k-1]) + HexVal(t[2*k])]

UpperDigit(v) == IF v < 10 THEN 48 + v ELSE 55 + v
LowerDigit(v) == IF v < 10 THEN 48 + v ELSE 87 + v

\* canonical (upper-case) hex text of a w-digit value, as character codes
HexText(v, w) == [k \in 1..w |-> UpperDigit((v \div (16^(w - k))) % 16)]

\* canonical hex text of a byte sequence
TextOfBytes(f) == [k \in 1..(2 * Len(f)) |->
                     IF k % 2 = 1 THEN UpperDigit(f[(k + 1) \div 2] \div 16)
                     ELSE UpperDigit(f[k \div 2] % 16)]

\* decimal digits -> char codes
DigitChar(d) == 48 + d
=============================================================================
