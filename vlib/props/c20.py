"""C20 - standard atmosphere and airspeed conversions are consistent.

The spec cannot compute powers and roots; it MONITORS the relations the statement lists over integer-projected
observations and compares against tables generated from ISO 2533 (spec/gen/gen_aero.py, mpmath).
A: MC_CommB.CasMonotone (table sanity) + the table itself; B/C: pyModeS.aero evaluated on the grid
   altitudes {-500, 0, ..., 20000} m and speeds {0.5 ... 450} m/s, Mach (0, 1.3], scalar and numpy-array arguments,
   whole-degree coordinate pairs -> TLC (TV_Aero): ISA within 0.1 %, continuity at 11 km, the four conversion pairs mutually
   inverse (1e-6), strict monotonicity, TAS >= EAS, CAS >= EAS, equality at sea level, symmetric distance that agrees with the
   haversine form (2e-4 absolute), bearing in [0, 360), scalar = array.
"""
from . import c01

SPEEDS = [0.5, 1, 2, 5, 10, 20, 50, 80, 120, 160, 200, 250, 300, 340, 380, 420, 450]
SPEEDS_T = sorted(set(SPEEDS + [0.5 + 2.5 * k for k in range(180)]))
MACHS = [0.01, 0.05, 0.1, 0.2, 0.3, 0.5, 0.7, 0.8, 0.9, 1.0, 1.1, 1.2, 1.3]


def um(x):
    return int(round(x * 1e6))


def vectors(ctx):
    rng = ctx.rng
    V = []
    SPEEDS = globals()["SPEEDS"] if ctx.quick else SPEEDS_T
    extra_alts = [] if ctx.quick else [-500 + 125 * k for k in range(165)]
    for k in range(1, 43):
        for arr in (0, 1):
            V.append({"fn": "aero.isa", "k": k, "arr": arr, "case": ["isa", k, arr]})
    # one altitude buffer updated in place and re-evaluated (trajectory-style use)
    for n in range(ctx.pick(30, 1000)):
        V.append({"fn": "aero.track", "ks": [rng.randint(1, 42) for _ in range(rng.randint(2, 6))], "case": ["track", n]})
    V.append({"fn": "aero.tropopause", "case": ["tropo"]})
    alts = sorted(set([-500 + 500 * k for k in range(42)] + [10999.999, 11000, 11000.001] + extra_alts))
    if ctx.quick:
        alts = alts[::4] + [0, 11000, 10999.999, 11000.001, 20000]
    for h in alts:
        for name in ("tas2cas", "cas2tas", "tas2eas", "eas2tas", "tas2mach"):
            xs = [um(s) for s in SPEEDS]
            V.append({"fn": "aero.monotone", "name": name, "h": h, "xs": xs, "case": ["mono", name, h]})
            for s in SPEEDS[::ctx.pick(2, 1)]:
                for arr in (0, 1):
                    V.append({"fn": "aero.inverse", "name": name, "x": um(s), "h": h, "arr": arr, "case": ["inv", name, s, h, arr]})
        for name in ("mach2tas", "mach2cas"):
            xs = [um(m) for m in MACHS]
            V.append({"fn": "aero.monotone", "name": name, "h": h, "xs": xs, "case": ["mono", name, h]})
            for m in MACHS:
                V.append({"fn": "aero.inverse", "name": name, "x": um(m), "h": h, "arr": 0, "case": ["inv", name, m, h]})
        # cas2mach is the inverse of mach2cas on CAS values
        V.append({"fn": "aero.monotone", "name": "cas2mach", "h": h, "xs": [um(s) for s in SPEEDS[:14]], "case": ["mono", "cas2mach", h]})
        for s in SPEEDS[:14:2]:
            V.append({"fn": "aero.inverse", "name": "cas2mach", "x": um(s), "h": h, "arr": 0, "case": ["inv", "cas2mach", s, h]})
        for s in SPEEDS:
            V.append({"fn": "aero.order", "x": um(s), "h": h, "case": ["order", s, h]})
            if not ctx.quick or s in (0.5, 120, 450):
                V.append({"fn": "aero.same", "name": rng.choice(["tas2cas", "cas2tas", "tas2eas", "eas2tas", "tas2mach"]),
                          "x": um(s), "h": h, "case": ["same", s, h]})
    for _ in range(ctx.pick(1500, 200000)):
        la1, la2 = rng.randrange(-90, 91), rng.randrange(-90, 91)
        lo1, lo2 = rng.randrange(-180, 181), rng.randrange(-180, 181)
        H = rng.choice([0, 0, 0, 1000, 11000, 20000])
        V.append({"fn": "aero.distance", "la1": la1, "lo1": lo1, "la2": la2, "lo2": lo2, "H": H, "arr": rng.randrange(2),
                  "case": ["dist", la1, lo1, la2, lo2, H]})
    # the radius argument on legs of every length, from a metre to half the globe
    for n in range(ctx.pick(400, 20000)):
        la1 = rng.randrange(-89000000, 89000001)
        lo1 = rng.randrange(-180000000, 180000001)
        span = 10 ** rng.randrange(0, 9)                     # micro-degrees: 1e-6 .. 100 deg
        la2 = max(-90000000, min(90000000, la1 + rng.randrange(-span, span + 1)))
        lo2 = max(-180000000, min(180000000, lo1 + rng.randrange(-span, span + 1)))
        V.append({"fn": "aero.distance_scale", "la1": la1, "lo1": lo1, "la2": la2, "lo2": lo2, "H": 500 * rng.randrange(1, 41),
                  "case": ["dscale", n]})
    for la, lo in ((0, 0), (90, 0), (-90, 0), (0, 180), (0, -180), (45, 45)):
        V.append({"fn": "aero.distance", "la1": la, "lo1": lo, "la2": la, "lo2": lo, "case": ["dist0", la, lo]})
        V.append({"fn": "aero.distance", "la1": la, "lo1": lo, "la2": -la, "lo2": lo - 180 if lo > 0 else lo + 180, "case": ["anti", la, lo]})
    return V


def case_of(e):
    return (e["fn"],) + tuple(e["case"])


def run(ctx):
    ctx.rule = ("altitudes -500..20000 m step 500 (+ 11 km -/+ 1 mm), speeds 0.5..450 m/s (17 values), Mach 0.01..1.3 (13 values), "
                "scalar and numpy-array calls, 1500+ whole-degree coordinate pairs incl. poles / antimeridian / identical and "
                "antipodal points; distinct = (relation, function, speed, altitude)")
    ctx.assumptions += ["ISA oracle = table generated from ISO 2533 (mpmath) at 500 m steps; great-circle oracle = integer haversine "
                        "form with a 1e-6 sine table (tolerance 3e-4 absolute); numeric drift below those tolerances is invisible"]
    import os
    from .. import tlc
    cfg = open(os.path.join(tlc.SPEC_DIR, "MC_CommB.cfg")).read().replace("XStride = 7", "XStride = 211")
    ctx.model_check("MC_CommB", cfg_text=cfg, what="aero tables sanity (CasMonotone)")
    ev = ctx.replay(vectors(ctx))
    for e in ev:
        r = e.pop("res")
        if r.get("t") != "obs":
            e["fn"] = "total"
            e["res"] = r
            continue
        r.pop("t")
        e.update(r)
        e["res"] = {"t": "n"}
        if e["fn"] == "aero.isa" and e.get("same") == 0:
            ctx.violation("atmos_and_single_quantity_functions_differ", {"fn": e["fn"], "id": e["id"], "k": e["k"]})
        ctx.distinct.add(case_of(e))
    ctx.samples += [ev[0], ev[len(ev) // 2], ev[-1]]
    ctx.judge(ctx.validate(ev))


replay = c01.replay
