#!/venv/bin/python
"""setup_cmd: offline sanity of the toolchain the checks need (nothing is downloaded or built persistently)."""
import os
import subprocess
import sys

HERE = os.path.dirname(os.path.dirname(os.path.abspath(__file__)))


def main():
    ok = True
    for p in ("/opt/veriftools/tla/tla2tools.jar", "/opt/veriftools/tla/CommunityModules-deps.jar"):
        if not os.path.exists(p):
            print("missing", p)
            ok = False
    r = subprocess.run(["java", "-version"], stdout=subprocess.PIPE, stderr=subprocess.STDOUT, text=True)
    print(r.stdout.splitlines()[0] if r.stdout else "java?")
    ok = ok and r.returncode == 0
    try:
        import numpy  # noqa: F401
    except Exception as e:  # noqa: BLE001
        print("numpy missing:", e)
        ok = False
    # parse every spec module once (syntax/semantic check)
    spec = os.path.join(HERE, "spec")
    bad = 0
    for fn in sorted(os.listdir(spec)):
        if not fn.endswith(".tla"):
            continue
        if fn.endswith("Proofs.tla"):
            # TLAPS proof modules import the proof system's own library (TLAPS, SequenceTheorems): they are parsed and checked
            # by tlapm inside the C17 check, not by SANY
            continue
        r = subprocess.run(["java", "-cp", "/opt/veriftools/tla/tla2tools.jar:/opt/veriftools/tla/CommunityModules-deps.jar",
                            "tla2sany.SANY", fn], cwd=spec, stdout=subprocess.PIPE, stderr=subprocess.STDOUT, text=True)
        if r.returncode != 0 or "rror" in r.stdout.replace("Semantic errors", "") and "*** Errors" in r.stdout:
            print("SANY failed for", fn)
            print(r.stdout[-800:])
            bad += 1
    print("spec modules parsed, failures:", bad)
    try:        # optional: only the two TLAPS proofs re-run by C17 need it (they are skipped with a note when it is absent)
        r = subprocess.run(["tlapm", "--version"], stdout=subprocess.PIPE, stderr=subprocess.STDOUT, text=True)
        print("tlapm:", (r.stdout.strip().splitlines() or ["?"])[0])
    except OSError as e:
        print("tlapm not available:", e)
    os.makedirs(os.path.join(HERE, "evidence"), exist_ok=True)
    os.makedirs(os.path.join(HERE, "replay"), exist_ok=True)
    sys.exit(0 if ok and bad == 0 else 1)


if __name__ == "__main__":
    main()
