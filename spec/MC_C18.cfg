INIT Init
NEXT Next
INVARIANT AddrRoundTrip
INVARIANT SelectiveFields
INVARIANT AllCallFields
CHECK_DEADLOCK FALSE
CONSTANT Seeded = {1193046, 7654321, 11259375}
