------------------------------- MODULE MC_C06 -------------------------------
(* Role A for C06: the generated transition table is sane and the NL function *)
(* built on it has the properties the statement lists, on the whole          *)
(* 0.0005-degree grid (grid point g stands for |lat| = g * 500 micro-degrees). *)
EXTENDS TV_CPR, TLC

VARIABLE j
Init == j \in ([k : {"tab"}] \cup [k : {"grid"}, hi : 0..180] \cup [k : {"lattice"}])
Next == UNCHANGED j /\ FALSE

NLgrid(g) == NLofLimbs(g * 500, 0)

Table == j.k = "tab" =>
  /\ \A k \in 2..58 : LexLess(TransLat[k + 1][1], TransLat[k + 1][2], TransLat[k])      \* strictly decreasing in k
  /\ TransLat[2] = <<87000000, 0>>
  /\ TransLat[59][1] = 10470471                                                         \* 10.4704713 deg
  /\ TransLat[3][1] = 86535369 /\ TransLat[30][1] = 59954592 /\ TransLat[58][1] = 14828174  \* DO-260B table spot values
  /\ AmbiguousLatticePoints = 0

Grid == j.k = "grid" => \A lo \in 0..999 :
  LET g == j.hi * 1000 + lo IN
  g <= 180000 =>
    /\ (g = 0 => NLgrid(g) = 59)
    /\ (g < 180000 => NLgrid(g + 1) <= NLgrid(g))
    /\ NLgrid(g) \in 1..59
    /\ (g <= 174000 => NLgrid(g) >= 2)          \* up to and including 87
    /\ (g > 174000 => NLgrid(g) = 1)

\* the lattice thresholds used by the CPR model agree with the limb table on the lattice points next to each transition
Lattice == j.k = "lattice" => \A k \in 3..59 :
  LET t == ThrAir60[k]          \* lat(t) = 6 * t / 2^17 degrees >= T_k > lat(t - 1)
      micro(L) == (L \div 1024) * 46875 + ((L % 1024) * 46875) \div 1024     \* floor(L * 6e6 / 2^17) micro-degrees
  IN  /\ NLat("air", 60, t) = k - 1 /\ NLat("air", 60, t - 1) = k
      /\ micro(t) >= TransLat[k][1] - 1 /\ micro(t - 1) <= TransLat[k][1]
=============================================================================
