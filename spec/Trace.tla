-------------------------------- MODULE Trace -------------------------------
(* Role C: validates events recorded from the implementation (stateless      *)
(* decoders).  One TLC state per event; verdicts are total: a rejected event *)
(* is printed (REJECT, id, failing clause) and the run continues.            *)
EXTENDS TV_Core, TV_Alt, TLC, Json, IOUtils

Events == ndJsonDeserialize(IOEnv.TRACE_FILE)

VARIABLES l, nbad, canon

Verdict(e) ==
  CASE e.fn = "crc" -> V_crc(e)
    [] e.fn = "crc_legacy" -> V_crc(e)
    [] e.fn = "icao" -> V_icao_rel(e, canon)
    [] e.fn = "adsb.icao" -> V_icao_rel(e, canon)
    [] e.fn = "allcall.icao" -> V_allcall_icao(e)
    [] e.fn = "common.altitude" -> V_common_altitude(e)
    [] e.fn = "common.altcode" -> V_altcode(e)
    [] e.fn = "surv.altitude" -> V_surv_altitude(e)
    [] e.fn = "adsb.altitude" -> V_adsb_altitude(e)
    [] e.fn = "adsb.altitude05" -> V_altitude05(e)
    [] e.fn = "common.squawk" -> V_squawk(e)
    [] e.fn = "common.idcode" -> V_idcode(e)
    [] e.fn = "surv.identity" -> V_surv_identity(e)
    [] e.fn = "adsb.emergency_squawk" -> V_emergency_squawk(e)
    [] e.fn = "surv.fs" -> V_surv_fs(e)
    [] e.fn = "surv.dr" -> V_surv_dr(e)
    [] e.fn = "surv.um" -> V_surv_um(e)
    [] e.fn = "common.fs" -> V_common_fs(e)
    [] e.fn = "common.dr" -> V_common_dr(e)
    [] e.fn = "common.um" -> V_common_um(e)
    [] e.fn = "allcall.capability" -> V_capability(e)
    [] e.fn = "allcall.interrogator" -> V_interrogator(e)
    [] OTHER -> "unknown_fn"

Init == l = 1 /\ nbad = 0 /\ canon = <<>> /\ TLCSet(1, 0)

Next ==
  /\ l <= Len(Events)
  /\ LET e == Events[l]
         v == Verdict(e)
     IN  /\ (IF v = "ok" THEN TRUE ELSE PrintT(<<"REJECT", e.id, v>>) /\ TLCSet(1, TLCGet(1) + 1))
         /\ nbad' = IF v = "ok" THEN nbad ELSE nbad + 1
  /\ l' = l + 1
  /\ canon' = IF Events[l].fn \in {"icao", "adsb.icao"} THEN CanonNext(Events[l], canon) ELSE canon

\* acceptance: every line consumed (diameter - 1 = number of events)
Done == PrintT(<<"DONE", Len(Events), TLCGet("stats").diameter, TLCGet(1)>>)
=============================================================================
