"""Parser for TLA+ values as printed by TLC (PrintT output, -dump files, -simulate files).

Handles: integers, strings, TRUE/FALSE, tuples <<...>>, sets {...}, records [a |-> v, ...],
functions (k :> v @@ k :> v), and integer intervals a..b (returned as range lists).
Values come back as Python ints/str/bool/list (tuples)/frozenset-like list tagged ('set', [...])/dict.
"""

class ParseError(Exception):
    pass


class _P:
    def __init__(self, s, i=0):
        self.s = s
        self.i = i
        self.n = len(s)

    def ws(self):
        s, n = self.s, self.n
        i = self.i
        while i < n and s[i] in " \t\r\n":
            i += 1
        self.i = i

    def peek(self, k=1):
        return self.s[self.i:self.i + k]

    def expect(self, tok):
        self.ws()
        if not self.s.startswith(tok, self.i):
            raise ParseError("expected %r at %d: %r" % (tok, self.i, self.s[self.i:self.i + 40]))
        self.i += len(tok)

    def value(self):
        self.ws()
        s = self.s
        c = s[self.i] if self.i < self.n else ""
        if c == "<" and self.peek(2) == "<<":
            self.i += 2
            out = []
            self.ws()
            if self.peek(2) == ">>":
                self.i += 2
                return out
            while True:
                out.append(self.value())
                self.ws()
                if self.peek(2) == ">>":
                    self.i += 2
                    return out
                self.expect(",")
        if c == "{":
            self.i += 1
            out = []
            self.ws()
            if self.peek() == "}":
                self.i += 1
                return ("set", out)
            while True:
                out.append(self.value())
                self.ws()
                if self.peek() == "}":
                    self.i += 1
                    return ("set", out)
                self.expect(",")
        if c == "[":
            self.i += 1
            out = {}
            self.ws()
            if self.peek() == "]":
                self.i += 1
                return out
            while True:
                self.ws()
                j = self.i
                while j < self.n and (s[j].isalnum() or s[j] == "_"):
                    j += 1
                key = s[self.i:j]
                self.i = j
                self.expect("|->")
                out[key] = self.value()
                self.ws()
                if self.peek() == "]":
                    self.i += 1
                    return out
                self.expect(",")
        if c == "(":
            self.i += 1
            out = {}
            while True:
                k = self.value()
                self.expect(":>")
                v = self.value()
                out[k if not isinstance(k, list) else tuple(k)] = v
                self.ws()
                if self.peek() == ")":
                    self.i += 1
                    return out
                self.expect("@@")
        if c == '"':
            j = self.i + 1
            buf = []
            while s[j] != '"':
                if s[j] == "\\":
                    j += 1
                buf.append(s[j])
                j += 1
            self.i = j + 1
            return "".join(buf)
        if c == "-" or c.isdigit():
            j = self.i + 1
            while j < self.n and s[j].isdigit():
                j += 1
            v = int(s[self.i:j])
            self.i = j
            if s.startswith("..", self.i):
                self.i += 2
                hi = self.value()
                return ("set", list(range(v, hi + 1)))
            return v
        if s.startswith("TRUE", self.i):
            self.i += 4
            return True
        if s.startswith("FALSE", self.i):
            self.i += 5
            return False
        # model value / identifier
        j = self.i
        while j < self.n and (s[j].isalnum() or s[j] == "_"):
            j += 1
        if j == self.i:
            raise ParseError("unexpected %r at %d" % (s[self.i:self.i + 30], self.i))
        v = s[self.i:j]
        self.i = j
        return ("id", v)


def parse(s):
    p = _P(s)
    v = p.value()
    p.ws()
    if p.i != p.n:
        raise ParseError("trailing %r" % s[p.i:p.i + 40])
    return v


def parse_prefix(s, i=0):
    p = _P(s, i)
    v = p.value()
    return v, p.i


def extract_prints(out, tag=None):
    """Find every top-level `<<"TAG", ...>>` value printed by PrintT in TLC stdout
    (bracket matching, robust against line wrapping)."""
    res = []
    i = 0
    n = len(out)
    while True:
        j = out.find('<<', i)
        if j < 0:
            break
        # only consider values that start a line (PrintT output starts at column 0)
        if j > 0 and out[j - 1] != "\n":
            i = j + 2
            continue
        try:
            v, k = parse_prefix(out, j)
        except (ParseError, IndexError, ValueError):
            i = j + 2
            continue
        if isinstance(v, list) and v and isinstance(v[0], str) and (tag is None or v[0] == tag):
            res.append(v)
        i = k
    return res


def parse_dump(path):
    """Parse a TLC `-dump` file into a list of dicts var -> value."""
    states = []
    with open(path) as f:
        txt = f.read()
    parts = txt.split("\nState ")
    for part in parts:
        part = part.strip()
        if not part:
            continue
        if part.startswith("State "):
            part = part[6:]
        k = part.find(":")
        body = part[k + 1:]
        st = {}
        i = 0
        n = len(body)
        while True:
            j = body.find("/\\", i)
            single = False
            if j < 0:
                rest = body[i:].strip()
                if not rest:
                    break
                # single-variable state without /\
                j = i
                single = True
            p = _P(body, j if single else j + 2)
            p.ws()
            a = p.i
            while p.i < n and (body[p.i].isalnum() or body[p.i] == "_"):
                p.i += 1
            name = body[a:p.i]
            p.expect("=")
            st[name] = p.value()
            i = p.i
            p.ws()
            if p.i >= n:
                break
        states.append(st)
    return states


def parse_sim(path):
    """Parse one behaviour file written by `tlc -simulate file=...`: returns [(action_label, {var: value})]."""
    import re
    txt = open(path).read()
    out = []
    parts = re.split(r"\n(?=\\\* <)", txt)
    for part in parts:
        m = re.search(r"\\\* <(\w+)[^>]*>\s*\nSTATE_\d+ ==", part)
        if not m:
            continue
        body = part[m.end():]
        # cut at the module footer if present
        k = body.find("\n====")
        if k >= 0:
            body = body[:k]
        st = {}
        i = 0
        n = len(body)
        while True:
            j = body.find("/\\", i)
            if j < 0:
                break
            p = _P(body, j + 2)
            p.ws()
            a = p.i
            while p.i < n and (body[p.i].isalnum() or body[p.i] == "_"):
                p.i += 1
            name = body[a:p.i]
            p.expect("=")
            st[name] = p.value()
            i = p.i
        lab = re.search(r"\\\* <(\w+)(\([^)]*\))?", part)
        out.append((lab.group(1) + (lab.group(2) or ""), st))
    return out
