#!/venv/bin/python
"""False-alarm test: applies a behaviour-preserving refactoring (sub-agent output: patch.diff + differential demo.py) to a scratch
worktree of the current /repo HEAD and runs the named checks against it.  Every check must exit 0 (MODEL-DRIFT lines allowed).
    tools/neutralcheck.py C07 --src /tmp/seedout12/C07 [--checks C07,C14,C15]
Files the refactoring under /verif/neutral/<id>/ with the outcome (meta.json)."""
import argparse
import json
import os
import shutil
import subprocess
import sys

VERIF = os.path.dirname(os.path.dirname(os.path.abspath(__file__)))


def sh(cmd, cwd=None, env=None, timeout=7200):
    p = subprocess.run(cmd, cwd=cwd, env=env, stdout=subprocess.PIPE, stderr=subprocess.STDOUT, text=True, timeout=timeout)
    return p.returncode, p.stdout


def main():
    ap = argparse.ArgumentParser()
    ap.add_argument("pid")
    ap.add_argument("--src", required=True)
    ap.add_argument("--checks", default=None)
    a = ap.parse_args()
    checks = (a.checks or a.pid).split(",")
    wt = "/tmp/nv_" + a.pid
    sh(["git", "-C", "/repo", "worktree", "remove", "--force", wt])
    rc, out = sh(["git", "-C", "/repo", "worktree", "add", "-q", "--detach", wt, "HEAD"])
    assert rc == 0, out
    log = {"repo_head": sh(["git", "-C", "/repo", "rev-parse", "--short", "HEAD"])[1].strip(), "checks": {}}
    try:
        cfile = "/repo/src/pyModeS/c_common.c"
        if os.path.exists(cfile):
            shutil.copy(cfile, os.path.join(wt, "src/pyModeS/c_common.c"))
        rc, out = sh(["git", "apply", "--whitespace=nowarn", os.path.join(a.src, "patch.diff")], cwd=wt)
        if rc != 0:
            print("PATCH DOES NOT APPLY:\n" + out[-1500:])
            return 3
        env = dict(os.environ, PYTHONPATH=os.path.join(wt, "src"), PYTHONHASHSEED="0")
        rc, out = sh(["/venv/bin/python", "-m", "pytest", "-q", "-p", "no:cacheprovider", "tests"], cwd=wt, env=env)
        log["tests"] = out.strip().splitlines()[-1] if out.strip() else ""
        alarms = 0
        for c in checks:
            env2 = dict(os.environ, VERIF_REPO=wt, VERIF_SKIP_A="1")
            rc, out = sh(["/venv/bin/python", os.path.join(VERIF, "check"), c], env=env2)
            lines = [l for l in out.splitlines() if l.startswith(("VIOLATION", "MODEL-DRIFT", "MACHINERY", "  violation"))]
            log["checks"][c] = {"exit": rc, "lines": lines[:12]}
            alarms += 1 if rc != 0 else 0
            print(a.pid, c, "exit", rc, *lines[:6], sep="\n   ")
        log["false_alarms"] = alarms
        dst = os.path.join(VERIF, "neutral", a.pid)
        os.makedirs(dst, exist_ok=True)
        shutil.copy(os.path.join(a.src, "patch.diff"), dst)
        meta = {}
        if os.path.exists(os.path.join(a.src, "meta.json")):
            meta = json.load(open(os.path.join(a.src, "meta.json")))
        meta["origin"] = "independent sub-agent given only the property text and a scratch worktree; asked for a behaviour-preserving refactoring"
        meta["what_was_run"] = log
        json.dump(meta, open(os.path.join(dst, "meta.json"), "w"), indent=1)
        return 1 if alarms else 0
    finally:
        sh(["git", "-C", "/repo", "worktree", "remove", "--force", wt])
        sh(["git", "-C", "/repo", "worktree", "prune"])


if __name__ == "__main__":
    sys.exit(main())
