"""Integer CPR encoder used ONLY to build genuine position squitters for the stateful drivers (C17).
It is a port of spec/CPR.tla `Encode` with the thresholds parsed from the generated spec/NLTable.tla; every frame it
produces is re-encoded by TLC during trace validation (Trace_Tracker.EncoderOK) - a disagreement is a machinery failure."""
import os
import re

_SPEC = os.path.join(os.path.dirname(os.path.dirname(os.path.abspath(__file__))), "spec", "NLTable.tla")
_THR = {}


def _load():
    if _THR:
        return
    txt = open(_SPEC).read()
    for name in ("ThrAir60", "ThrAir59", "ThrSurf60", "ThrSurf59"):
        line = [l for l in txt.splitlines() if l.startswith(name + " ==")][0]
        _THR[name] = {int(k): int(v) for k, v in re.findall(r"(\d+) :> (\d+)", line)}


def nlat(kind, n, L):
    _load()
    t = _THR[("ThrAir" if kind == "air" else "ThrSurf") + str(n)]
    x = abs(L)
    return 1 + sum(1 for k in range(2, 60) if x < t[k])


def encode(kind, a, o, i):
    n = 60 - i
    sc = 1 if kind == "air" else 4
    x = a * n * sc
    yzf = ((x % (1 << 24)) + 64) // 128
    L = (x >> 24) * (1 << 17) + yzf
    ni = max(nlat(kind, n, L) - i, 1)
    y = o * ni * sc
    xzf = ((y % (1 << 24)) + 64) // 128
    return yzf % (1 << 17), xzf % (1 << 17)
