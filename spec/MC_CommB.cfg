INIT Init
NEXT Next
INVARIANT Layout
INVARIANT Tiling
INVARIANT Env
INVARIANT CasMonotone
CHECK_DEADLOCK FALSE
CONSTANT XStride = 7
