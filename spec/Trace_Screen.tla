----------------------------- MODULE Trace_Screen ----------------------------
(* Role C for the viewer: runs of the real Screen (kye_handling on a scripted curses window, update_ac, update) recorded  *)
(* one line per step and checked against the actions of ScreenSM.                                                        *)
(*   [ev |-> "start", run, id]                                                                                           *)
(*   [ev |-> "act", run, id, a, acs, y, offset, lock, shown, hl]    a = ScreenSM action; acs = the table (for "Table");  *)
(*                                                                   the rest = what the object / window hold afterwards  *)
EXTENDS ScreenSM, TLC, Json, IOUtils

Events == ndJsonDeserialize(IOEnv.TRACE_FILE)

VARIABLES l, failed

SeqToSet(s) == {s[i] : i \in 1..Len(s)}
RowFn(s) == [r \in Rows |-> s[r - 2]]

Act(e) == CASE e.a = "Home" -> Home [] e.a = "Down" -> Down [] e.a = "Up" -> Up [] e.a = "NPage" -> NPage
            [] e.a = "PPage" -> PPage [] e.a = "Enter" -> Enter [] e.a = "Esc" -> Esc [] e.a = "Render" -> Render
            [] e.a = "Table" -> Table(SeqToSet(e.acs))
            [] OTHER -> FALSE

TInit == /\ l = 1 /\ failed = FALSE /\ TLCSet(1, 0) /\ Init

Reject(e, why) == PrintT(<<"REJECT", e.id, why>>) /\ TLCSet(1, TLCGet(1) + 1)

Why(e) == IF ~ENABLED Act(e) THEN "screen_step_not_possible"
          ELSE IF ~ENABLED (Act(e) /\ y' = e.y) THEN "screen_cursor"
          ELSE IF ~ENABLED (Act(e) /\ offset' = e.offset) THEN "screen_page_offset"
          ELSE IF ~ENABLED (Act(e) /\ lock' = e.lock) THEN "screen_lock"
          ELSE IF ~ENABLED (Act(e) /\ shown' = RowFn(e.shown)) THEN "screen_rows"
          ELSE "screen_highlight"

TNext ==
  /\ l <= Len(Events)
  /\ l' = l + 1
  /\ LET e == Events[l] IN
     CASE e.ev = "start" ->
            /\ failed' = FALSE
            /\ y' = 3 /\ offset' = 0 /\ lock' = NoLock /\ acs' = (IF FixedTable THEN Ids ELSE {})
            /\ shown' = [r \in Rows |-> 0] /\ hl' = [r \in Rows |-> "none"]
       [] e.ev = "act" ->
            IF failed THEN UNCHANGED <<failed, vars>>
            ELSE \/ /\ Act(e) /\ y' = e.y /\ offset' = e.offset /\ lock' = e.lock /\ shown' = RowFn(e.shown) /\ hl' = RowFn(e.hl)
                    /\ (IF TypeOK' /\ ShownSlice' THEN failed' = FALSE ELSE Reject(e, "screen_invariant") /\ failed' = TRUE)
                 \/ /\ ~ENABLED (Act(e) /\ y' = e.y /\ offset' = e.offset /\ lock' = e.lock /\ shown' = RowFn(e.shown) /\ hl' = RowFn(e.hl))
                    /\ Reject(e, Why(e))
                    /\ failed' = TRUE
                    /\ UNCHANGED vars

TDone == PrintT(<<"DONE", Len(Events), TLCGet("stats").diameter, TLCGet(1)>>)
=============================================================================
