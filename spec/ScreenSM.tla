------------------------------ MODULE ScreenSM ------------------------------
(* The viewer process of modeslive (streamer/screen.py): the aircraft table it was last handed, the key-handling thread  *)
(* (cursor row, page offset, locked aircraft) and what update() draws.  One action per key of kye_handling, one for a    *)
(* table arriving on the aircraft pipe (update_ac), one for update().  Aircraft are abstract ids; the table is shown     *)
(* sorted by address, as update() sorts it.  Outside the listed properties: deviations are MODEL-DRIFT.                  *)
(*                                                                                                                       *)
(*   rows 3 .. H-4 show table entries  idx = row + offset - 3      (update: for row in range(3, scr_h - 3))              *)
(*   PgDn: offset += H-4 if offset + (H-4) < len(acs) - 5          PgUp: offset -= H-4, not below 0                      *)
(*   Down: y+1 if y+1 < H-3     Up: y-1 if y-1 > 2     Home: y = 1     Enter: lock what row y shows     Esc: unlock      *)
EXTENDS Naturals, Sequences, FiniteSets, SequencesExt

CONSTANTS H,            \* screen height (lines)
          Ids,          \* aircraft ids (naturals > 0)
          FixedTable,   \* TRUE: the table is Ids and never changes (paging analysis)
          Probe,        \* the aircraft id asked about by NeverShownProbe
          Tables        \* the tables that may arrive on the aircraft pipe (subsets of Ids)

VARIABLES y, offset, lock, acs, shown, hl
vars == <<y, offset, lock, acs, shown, hl>>

Rows == 3..(H - 4)
Page == H - 4
Sorted(S) == SetToSortSeq(S, LAMBDA a, b : a < b)
\* values of `lock` besides an aircraft id (TLC does not compare strings with numbers)
NoLock == 0
Blank == 1000        \* Enter on an empty row: lock_icao = six spaces
Header == 1001       \* Enter on the header rows 1-2 (reachable through Home)

Init == /\ y = 3 /\ offset = 0 /\ lock = NoLock
        /\ acs = (IF FixedTable THEN Ids ELSE {})
        /\ shown = [r \in Rows |-> 0] /\ hl = [r \in Rows |-> "none"]

Home  == y' = 1 /\ UNCHANGED <<offset, lock, acs, shown, hl>>
Down  == y' = (IF y + 1 < H - 3 THEN y + 1 ELSE y) /\ UNCHANGED <<offset, lock, acs, shown, hl>>
Up    == y' = (IF y > 3 THEN y - 1 ELSE y) /\ UNCHANGED <<offset, lock, acs, shown, hl>>
NPage == offset' = (IF offset + Page + 5 < Cardinality(acs) THEN offset + Page ELSE offset) /\ UNCHANGED <<y, lock, acs, shown, hl>>
PPage == offset' = (IF offset > Page THEN offset - Page ELSE 0) /\ UNCHANGED <<y, lock, acs, shown, hl>>
Drawn == \E r \in Rows : hl[r] # "none"            \* update() has drawn the table (and its two header rows) at least once
Enter == /\ lock' = (IF y \in Rows THEN (IF shown[y] = 0 THEN Blank ELSE shown[y]) ELSE IF Drawn THEN Header ELSE Blank)
         /\ UNCHANGED <<y, offset, acs, shown, hl>>
Esc   == lock' = NoLock /\ UNCHANGED <<y, offset, acs, shown, hl>>

Table(S) == /\ ~FixedTable /\ acs' = S /\ UNCHANGED <<y, offset, lock, shown, hl>>

Render == /\ acs # {}                                   \* update() returns at once for an empty table: the old rows stay
          /\ LET s == Sorted(acs)
                 sh == [r \in Rows |-> IF r + offset - 3 >= Len(s) THEN 0 ELSE s[r + offset - 3 + 1]]
             IN  /\ shown' = sh
                 /\ hl' = [r \in Rows |-> IF sh[r] # 0 /\ lock = sh[r] THEN "standout" ELSE IF r = y THEN "bold" ELSE "normal"]
          /\ UNCHANGED <<y, offset, lock, acs>>

Key == Home \/ Down \/ Up \/ NPage \/ PPage \/ Enter \/ Esc
Next == Key \/ Render \/ (\E S \in Tables : Table(S))
Spec == Init /\ [][Next]_vars

-------------------------------------------------------------------------------
TypeOK == /\ y \in 1..(H - 4) /\ offset \in Nat /\ offset % Page = 0
          /\ lock \in {NoLock, Blank, Header} \cup Ids
          /\ acs \subseteq Ids
(* what is drawn is a contiguous, ascending slice of the sorted table followed by blank rows *)
ShownSlice == \A r \in Rows : \A q \in Rows :
                 (r < q /\ shown[q] # 0) => (shown[r] # 0 /\ shown[r] < shown[q])
(* at most one row carries the lock highlight, and only the locked aircraft *)
LockHighlight == [][(shown' # shown \/ hl' # hl) => \A r \in Rows : hl'[r] = "standout" => (shown'[r] # 0 /\ lock' = shown'[r])]_vars
(* the page offset never passes the end of the table while the table does not change *)
OffsetInTable == FixedTable => (offset = 0 \/ offset + 5 < Cardinality(acs))

(* Analysis properties whose counterexamples / proofs are the result (see the driver):                                  *)
(*  NeverShown(i): holds for an aircraft that no sequence of keys can bring onto the screen                             *)
NeverShown(i) == \A r \in Rows : shown[r] # i
NeverShownProbe == NeverShown(Probe)
(*  a non-empty table always shows something after update(): refuted when the table shrinks below the page offset       *)
ShowsSomething == (Drawn /\ acs # {} /\ (\A r \in Rows : shown[r] = 0)) => FALSE
=============================================================================
