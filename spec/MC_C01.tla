------------------------------- MODULE MC_C01 -------------------------------
(* Role A for C01: algebraic lemmas about the CRC, checked exhaustively.     *)
(*  L1  ByteRem = BitRem on a basis of the frame space (every single-byte     *)
(*      frame of both lengths) and Tab is linear (=> ByteRem linear => equal  *)
(*      everywhere; BitRem is linear because polynomial remainder is).        *)
(*  L2  parity closure on all unit data words and all pairs of them.          *)
(*  L3  minimum distance >= 6 on 112 bits (and on the 56-bit sub-code).       *)
(*  L4  every burst of length <= 24 at every offset has non-zero syndrome.    *)
EXTENDS Frame, FiniteSets, TLC

VARIABLE job

Zero(n) == [k \in 1..n |-> 0]
ByteFrame(n, p, b) == [k \in 1..n |-> IF k = p THEN b ELSE 0]
UnitFrame(n, i) == [k \in 1..n |-> IF k = ((i - 1) \div 8) + 1 THEN Pow2(7 - ((i - 1) % 8)) ELSE 0]

\* syndromes of the 112 single-bit errors (bit i of a 56-bit frame has syndrome S[56+i])
S == [i \in 1..112 |-> ByteRem(UnitFrame(14, i))]
W2 == {0} \cup {S[i] : i \in 1..112} \cup {S[i] ^^ S[j] : i \in 1..112, j \in 1..112}

Init == job \in ([k : {"tab"}, n : {14}, p : 1..14] \cup [k : {"tab"}, n : {7}, p : 1..7]
                 \cup [k : {"lin"}, a : 0..255] \cup [k : {"clo"}, n : {11, 4}]
                 \cup [k : {"dist"}, i : 1..110] \cup [k : {"w2"}]
                 \cup [k : {"burst"}, n : {112}, o : 0..88] \cup [k : {"burst"}, n : {56}, o : 0..32]
                 \cup [k : {"short"}, i : 1..56])

Next ==
  \/ /\ job.k = "tab" /\ "b" \notin DOMAIN job
     /\ \E b \in 0..255 : job' = [k |-> "tab", n |-> job.n, p |-> job.p, b |-> b]
  \/ /\ job.k = "clo" /\ "i" \notin DOMAIN job
     /\ \E i \in 1..(8 * job.n), j \in 1..(8 * job.n) : job' = [k |-> "clo", n |-> job.n, i |-> i, j |-> j]

L1 == /\ (job.k = "tab" /\ "b" \in DOMAIN job) =>
            LET f == ByteFrame(job.n, job.p, job.b) IN ByteRem(f) = BitRem(f)
      /\ job.k = "lin" => \A b \in 0..255 : Tab[job.a ^^ b] = Tab[job.a] ^^ Tab[b]
      /\ job.k = "short" => ByteRem(UnitFrame(7, job.i)) = S[56 + job.i]

L2 == (job.k = "clo" /\ "i" \in DOMAIN job) =>
         LET d == XorSeq(UnitFrame(job.n, job.i), IF job.i = job.j THEN Zero(job.n) ELSE UnitFrame(job.n, job.j))
             f == WithTail(d, Parity(d))
         IN  BitRem(f) = 0 /\ ByteRem(f) = 0

L3 == /\ job.k = "w2" => Cardinality(W2) = 1 + 112 + 6216
      /\ job.k = "dist" => \A j \in (job.i + 1)..111 : \A m \in (j + 1)..112 :
                              ((S[job.i] ^^ S[j]) ^^ S[m]) \notin W2

L4 == job.k = "burst" =>
         LET base == 112 - job.n
             len == Min(24, job.n - job.o)
         IN  Rank([q \in 1..len |-> S[base + job.o + q]]) = len
=============================================================================
